#!/bin/bash
# Runs the repository's pinned test suite (guard off: no build tags, no overlays) and checks that
# every test in BASELINE.json's stable_pass list passes.
export GOFLAGS=-mod=mod GOPROXY=off GOSUMDB=off GOTOOLCHAIN=local
cd /repo || exit 2
out=$(mktemp)
go test -json -vet=off -count=1 -timeout 25m ./... > "$out" 2>&1
python3 - "$out" <<'PY'
import json,sys
passed=set(); failed=set()
for l in open(sys.argv[1]):
    try: e=json.loads(l)
    except Exception: continue
    if e.get('Test') and e.get('Action') in ('pass','fail'):
        k=e['Package']+'::'+e['Test']
        (passed if e['Action']=='pass' else failed).add(k)
base=json.load(open('/root/.vp/BASELINE.json'))
missing=[t for t in base['stable_pass'] if t not in passed]
print('passed=%d failed=%d baseline=%d missing=%d'%(len(passed),len(failed),len(base['stable_pass']),len(missing)))
for t in missing: print('MISSING/FAILED:',t)
sys.exit(1 if missing else 0)
PY
rc=$?
rm -f "$out"
exit $rc
