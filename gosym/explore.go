package main

// Path exploration: DFS over decision vectors with re-execution from the start.

import (
	"fmt"
	"os"
	"runtime/debug"
	"sort"
	"strings"
	"time"

	"golang.org/x/tools/go/ssa"
)

type Decision struct {
	K int    // chosen alternative (bool: 1=true 0=false)
	N int    // number of alternatives (2 for bool, n for choose, 0 for concretize)
	V uint64 // concretize: the value tested
}

type Violation struct {
	Kind   string   `json:"kind"` // "assert" | "panic" | "unwind" | "deadlock"
	Msg    string   `json:"msg"`
	Vector []uint64 `json:"vector"`        // ND draws in order, from the solver's model
	Aux    []uint64 `json:"aux,omitempty"` // auxiliary draws (clock instants, opaque results) in order
	Names  []string `json:"names,omitempty"`
	Class  string   `json:"class,omitempty"` // harness-provided classification (Note("class", ...))
	Notes  []string `json:"notes,omitempty"`
	Path   int      `json:"path"`
}

type JobResult struct {
	ID            int            `json:"id"`
	Harness       string         `json:"harness"`
	Params        []int          `json:"params"`
	Paths         int            `json:"paths"`
	Nontrivial    int            `json:"nontrivial"`
	Ends          map[string]int `json:"ends"`
	Asserts       int            `json:"asserts"`      // assertion obligations reached (path × assert)
	Discharged    int            `json:"discharged"`   // decided unsat (or trivially true)
	Trivial       int            `json:"trivial"`      // folded to true without the solver
	Inconclusive  int            `json:"inconclusive"` // solver unknown / error
	Skipped       bool           `json:"skipped,omitempty"` // not explored: the check already had enough counterexamples
	Reached       map[string]int `json:"reached"`
	Violations    []Violation    `json:"violations"`
	Queries       int            `json:"queries"`
	ModelHits     int            `json:"model_hits"`
	SolverS       float64        `json:"solver_s"`
	MaxQueryS     float64        `json:"max_query_s"`
	WallS         float64        `json:"wall_s"`
	Steps         int            `json:"steps"`
	NVars         int            `json:"nvars"`
	Funcs         []string       `json:"funcs,omitempty"`
	EngineErr     string         `json:"engine_err,omitempty"`
	Truncated     bool           `json:"truncated,omitempty"`
	Observed      []observation  `json:"observed,omitempty"`
	CrossChecked  int            `json:"cross_checked"`
	CrossDisagree int            `json:"cross_disagree"`
	Sample        string         `json:"sample,omitempty"`
	Stubs         []string       `json:"stubs,omitempty"`
	Candidates    []raceCand     `json:"candidates,omitempty"`
}

type observation struct {
	Tag  string `json:"tag"`
	Data string `json:"data"` // hex
}

type Explorer struct {
	sol    *Solver
	prefix []Decision
	path   []Decision
	pc     []*Term
	work   [][]Decision
	vars   []*Term // ND variables drawn on the current path, in order
	names  []string
	aux    []*Term // auxiliary variables (clock instants, opaque results): not part of the vector
	nAux   int

	pool       []Model // recent models (from any path)
	live       []bool
	memos      []map[*Term]uint64
	res        *JobResult
	params     []int
	concVec    []uint64 // concrete mode: ND draws come from here
	concAux    []uint64
	concolic   Model // selftest: decisions are taken by evaluating under this model
	concMode   bool
	notes      []string
	class      string
	funcsSeen  map[*ssa.Function]bool
	stubs      map[string]bool
	crossEvery int
	pathNo     int
	maxViol    int
	known      []string // known-finding classes to exclude (assumed away)
	opaqueLen  int
	pcSet      map[*Term]bool
	bounds     map[*Term]ival
	rangeMemo  map[*Term]rmemo
}

const poolSize = 6

func (e *Explorer) resetPath(prefix []Decision) {
	e.prefix = prefix
	e.path = e.path[:0]
	e.pc = e.pc[:0]
	e.vars = e.vars[:0]
	e.names = e.names[:0]
	e.aux = e.aux[:0]
	e.nAux = 0
	e.notes = nil
	e.class = ""
	e.pcSet = map[*Term]bool{}
	e.bounds = map[*Term]ival{}
	e.rangeMemo = map[*Term]rmemo{}
	resetFacts()
	e.live = make([]bool, len(e.pool))
	e.memos = make([]map[*Term]uint64, len(e.pool))
	for i := range e.live {
		e.live[i] = true
		e.memos[i] = map[*Term]uint64{}
	}
}

func (e *Explorer) addModel(m Model) {
	if m == nil {
		return
	}
	if len(e.pool) >= poolSize {
		// replace a dead one if any, else the oldest
		idx := 0
		for i, l := range e.live {
			if !l {
				idx = i
				break
			}
		}
		e.pool[idx] = m
		e.live[idx] = true
		e.memos[idx] = map[*Term]uint64{}
		return
	}
	e.pool = append(e.pool, m)
	e.live = append(e.live, true)
	e.memos = append(e.memos, map[*Term]uint64{})
}

// addPC appends a constraint to the path condition and filters the live models.
func (e *Explorer) addPC(c *Term) {
	if c.isTrue() {
		return
	}
	e.pc = append(e.pc, c)
	e.pcSet[c] = true
	e.learnBounds(c)
	for i := range e.pool {
		if e.live[i] && evalTerm(c, e.pool[i], e.memos[i]) != 1 {
			e.live[i] = false
		}
	}
	// record "var != const" facts
	if c.op == "not" && c.args[0].op == "=" {
		eq := c.args[0]
		if eq.args[0].op == "v" && eq.args[1].isC() {
			noteNe(eq.args[0], eq.args[1].c)
		} else if eq.args[1].op == "v" && eq.args[0].isC() {
			noteNe(eq.args[1], eq.args[0].c)
		}
	}
}

func (e *Explorer) allVars() []*Term {
	return append(append([]*Term{}, e.vars...), e.aux...)
}

// feasible decides sat(pc ∧ c) using the model pool first.
func (e *Explorer) feasible(c *Term) (bool, bool) { // (sat, conclusive)
	if c.isTrue() {
		// pc itself is satisfiable by construction
		return true, true
	}
	if c.isFalse() {
		return false, true
	}
	for i := range e.pool {
		if e.live[i] && evalTerm(c, e.pool[i], e.memos[i]) == 1 {
			e.res.ModelHits++
			return true, true
		}
	}
	r, m := e.query(c)
	switch r {
	case "sat":
		e.addModel(m)
		return true, true
	case "unsat":
		return false, true
	}
	return true, false
}

func (e *Explorer) query(c *Term) (string, Model) {
	tq := time.Now()
	r, m := e.sol.Check(e.pc, c, e.allVars())
	e.res.Queries++
	if d := time.Since(tq); d > 5*time.Second && os.Getenv("GOSYM_SLOWLOG") != "" {
		fmt.Fprintf(os.Stderr, "SLOW QUERY %.1fs %s %v -> %s (pc=%d) c=%s\n", d.Seconds(), e.res.Harness, e.res.Params, r, len(e.pc), c.short(6))
	}
	if e.crossEvery > 0 && e.res.Queries%e.crossEvery == 0 && r != "unknown" {
		script := standaloneScript(e.pc, c, false)
		for _, k := range []string{"z3old", "cvc5"} {
			sc := script
			if k == "cvc5" {
				sc = "(set-logic QF_BV)\n" + script
			}
			o := oneShot(k, sc)
			if o == "sat" || o == "unsat" {
				e.res.CrossChecked++
				if o != r {
					e.res.CrossDisagree++
					fmt.Fprintf(os.Stderr, "CROSS-CHECK DISAGREEMENT %s: primary=%s %s=%s\n", e.res.Harness, r, k, o)
				}
			}
		}
	}
	return r, m
}

func (e *Explorer) decide(c *Term) bool {
	if c.isC() {
		return c.c == 1
	}
	idx := len(e.path)
	var choice bool
	if e.concolic != nil {
		v := evalTerm(c, e.concolic, map[*Term]uint64{}) == 1
		if v {
			e.addPC(c)
		} else {
			e.addPC(Not(c))
		}
		return v
	}
	// already implied syntactically by the path condition: no fork, no query, no decision record
	if e.pcSet[c] {
		return true
	}
	if e.pcSet[Not(c)] {
		return false
	}
	if v, ok := e.foldByRange(c); ok {
		return v
	}
	if idx < len(e.prefix) {
		d := e.prefix[idx]
		if d.N != 2 {
			panic(engineError{fmt.Sprintf("replay divergence: expected bool decision at %d, prefix has N=%d", idx, d.N)})
		}
		choice = d.K == 1
	} else {
		t, tc := e.feasible(c)
		f, fc := e.feasible(Not(c))
		if !tc || !fc {
			e.res.Inconclusive++
		}
		switch {
		case t && f:
			alt := append(append([]Decision{}, e.path...), Decision{K: 0, N: 2})
			e.work = append(e.work, alt)
			choice = true
		case t:
			choice = true
		case f:
			choice = false
		default:
			panic(pathEnd{"infeasible"})
		}
	}
	k := 0
	if choice {
		k = 1
	}
	e.path = append(e.path, Decision{K: k, N: 2})
	if choice {
		e.addPC(c)
	} else {
		e.addPC(Not(c))
	}
	return choice
}

// choose: n-ary non-symbolic choice (scheduler, select).
func (e *Explorer) choose(n int, what string) int {
	idx := len(e.path)
	k := 0
	if idx < len(e.prefix) {
		d := e.prefix[idx]
		if d.N != n {
			panic(engineError{fmt.Sprintf("replay divergence at choose(%s): n=%d prefix N=%d", what, n, d.N)})
		}
		k = d.K
	} else {
		for i := n - 1; i >= 1; i-- {
			alt := append(append([]Decision{}, e.path...), Decision{K: i, N: n})
			e.work = append(e.work, alt)
		}
	}
	e.path = append(e.path, Decision{K: k, N: n})
	return k
}

// concretize forks over the feasible values of t.
func (e *Explorer) concretize(t *Term, what string) uint64 {
	for iter := 0; ; iter++ {
		if iter > 4096 {
			panic(pathEnd{"UNWIND: concretize " + what})
		}
		idx := len(e.path)
		var v uint64
		var take bool
		if idx < len(e.prefix) {
			d := e.prefix[idx]
			if d.N != 0 {
				panic(engineError{"replay divergence at concretize " + what})
			}
			v, take = d.V, d.K == 1
		} else {
			// find a feasible value
			found := false
			for i := range e.pool {
				if e.live[i] {
					v = evalTerm(t, e.pool[i], e.memos[i])
					found = true
					break
				}
			}
			if !found {
				r, m := e.query(B(true))
				if r == "unsat" {
					panic(pathEnd{"infeasible"})
				}
				if r == "unknown" {
					e.res.Inconclusive++
					panic(pathEnd{"inconclusive concretize " + what})
				}
				e.addModel(m)
				v = evalTerm(t, m, map[*Term]uint64{})
			}
			// is another value possible?
			other, _ := e.feasible(Not(Bin("=", t, C(t.w, v))))
			if other {
				alt := append(append([]Decision{}, e.path...), Decision{K: 0, N: 0, V: v})
				e.work = append(e.work, alt)
			}
			take = true
		}
		k := 0
		if take {
			k = 1
		}
		e.path = append(e.path, Decision{K: k, N: 0, V: v})
		eq := Bin("=", t, C(t.w, v))
		if take {
			e.addPC(eq)
			return v
		}
		e.addPC(Not(eq))
	}
}

func (e *Explorer) fresh(w int, name string) *Term {
	i := len(e.vars)
	if e.concMode {
		var x uint64
		if i < len(e.concVec) {
			x = e.concVec[i]
		}
		// keep the bookkeeping identical to symbolic mode
		e.vars = append(e.vars, Var(fmt.Sprintf("x%d_%d", i, w), w))
		e.names = append(e.names, name)
		if w == 0 {
			return B(x != 0)
		}
		return C(w, x)
	}
	v := Var(fmt.Sprintf("x%d_%d", i, w), w)
	e.vars = append(e.vars, v)
	e.names = append(e.names, name)
	return v
}

func (e *Explorer) freshAux(w int, tag string) *Term {
	v := Var(fmt.Sprintf("a%d_%s_%d", e.nAux, tag, w), w)
	i := e.nAux
	e.nAux++
	e.aux = append(e.aux, v)
	if e.concMode && e.concAux != nil {
		var x uint64
		if i < len(e.concAux) {
			x = e.concAux[i]
		}
		if w == 0 {
			return B(x != 0)
		}
		return C(w, x)
	}
	return v
}

func (e *Explorer) vectorFrom(m Model) []uint64 {
	vec := make([]uint64, len(e.vars))
	for i, v := range e.vars {
		vec[i] = m[v] & mask64(v.w)
	}
	return vec
}

func (e *Explorer) recordViolation(kind, msg string, m Model) {
	v := Violation{Kind: kind, Msg: msg, Class: e.class, Notes: e.notes, Path: e.pathNo}
	if e.concMode {
		v.Vector = append([]uint64{}, e.concVec...)
	} else {
		v.Vector = e.vectorFrom(m)
		for _, a := range e.aux {
			v.Aux = append(v.Aux, m[a]&mask64(a.w))
		}
	}
	v.Names = append([]string{}, e.names...)
	e.res.Violations = append(e.res.Violations, v)
}

func (e *Explorer) assert(c *Term, what string) {
	e.res.Asserts++
	if c.isTrue() {
		e.res.Discharged++
		e.res.Trivial++
		return
	}
	if v, ok := e.foldByRange(c); ok && v {
		e.res.Discharged++
		e.res.Trivial++
		return
	}
	neg := Not(c)
	// a live model falsifying c is a counterexample already
	for i := range e.pool {
		if e.live[i] && evalTerm(neg, e.pool[i], e.memos[i]) == 1 {
			e.res.ModelHits++
			e.recordViolation("assert", what, e.pool[i])
			panic(pathEnd{"violation"})
		}
	}
	r, m := e.query(neg)
	switch r {
	case "unsat":
		e.res.Discharged++
		e.addPC(c) // c is implied; adding it lets later folding use it (no solver cost: models unaffected)
	case "sat":
		e.addModel(m)
		e.recordViolation("assert", what, m)
		panic(pathEnd{"violation"})
	default:
		e.res.Inconclusive++
		panic(pathEnd{"inconclusive assert: " + what})
	}
}

func (e *Explorer) assume(c *Term) {
	if c.isTrue() {
		return
	}
	if c.isFalse() {
		panic(pathEnd{"assume-false"})
	}
	if v, ok := e.foldByRange(c); ok {
		if !v {
			panic(pathEnd{"assume-false"})
		}
		return
	}
	ok, _ := e.feasible(c)
	if !ok {
		panic(pathEnd{"assume-false"})
	}
	e.addPC(c)
}

// currentModel returns some model of the current path condition.
func (e *Explorer) currentModel() Model {
	for i := range e.pool {
		if e.live[i] {
			return e.pool[i]
		}
	}
	r, m := e.query(B(true))
	if r == "sat" {
		e.addModel(m)
		return m
	}
	return Model{}
}

// ---- running one job ----

type Job struct {
	ID        int      `json:"id"`
	Harness   string   `json:"harness"`
	Pkg       string   `json:"pkg"`
	Params    []int    `json:"params"`
	Solver    string   `json:"solver,omitempty"`
	MaxPaths  int      `json:"max_paths,omitempty"`
	MaxSteps  int      `json:"max_steps,omitempty"`
	Vector    []uint64 `json:"vector,omitempty"` // concrete mode
	AuxVector []uint64 `json:"aux_vector,omitempty"`
	Concrete  bool     `json:"concrete,omitempty"`
	Cross     int      `json:"cross,omitempty"`
	WantFuncs bool     `json:"want_funcs,omitempty"`
	Lockset   bool     `json:"lockset,omitempty"`
	MaxViol   int      `json:"max_viol,omitempty"`
	// EngineReplay: the harness drives stubbed timers, so counterexamples are replayed concretely
	// inside the engine instead of against the native build
	EngineReplay bool `json:"engine_replay,omitempty"`
}

var solvers = map[string]*Solver{}

func solverFor(kind string) *Solver {
	if kind == "" {
		kind = "z3new"
	}
	s := solvers[kind]
	if s == nil {
		s = NewSolver(kind)
		solvers[kind] = s
	}
	return s
}

func runJob(w *World, job Job) (res *JobResult) {
	t0 := time.Now()
	res = &JobResult{ID: job.ID, Harness: job.Harness, Params: job.Params, Ends: map[string]int{}, Reached: map[string]int{}}
	fn := w.harness(job.Pkg, job.Harness)
	if fn == nil {
		res.EngineErr = "no such harness " + job.Pkg + "." + job.Harness
		return
	}
	sol := solverFor(job.Solver)
	q0, d0 := sol.queries, sol.dur
	sol.maxQuery = 0
	ex := &Explorer{sol: sol, res: res, params: job.Params, funcsSeen: map[*ssa.Function]bool{}, stubs: map[string]bool{},
		concMode: job.Concrete, concVec: job.Vector, concAux: job.AuxVector, crossEvery: job.Cross, maxViol: job.MaxViol}
	if ex.maxViol == 0 {
		ex.maxViol = 3
	}
	ex.work = [][]Decision{nil}
	maxPaths := job.MaxPaths
	if maxPaths == 0 {
		maxPaths = 200000
	}
	defer func() {
		if r := recover(); r != nil {
			res.EngineErr = fmt.Sprint(r)
			if os.Getenv("GOSYM_DEBUG") != "" {
				res.EngineErr += "\n" + string(debug.Stack())
			}
		}
		res.SolverS = (sol.dur - d0).Seconds()
		res.MaxQueryS = sol.maxQuery.Seconds()
		_ = q0
		res.WallS = time.Since(t0).Seconds()
		if job.WantFuncs {
			for f := range ex.funcsSeen {
				res.Funcs = append(res.Funcs, f.String())
			}
			sort.Strings(res.Funcs)
		}
		for s := range ex.stubs {
			res.Stubs = append(res.Stubs, s)
		}
		sort.Strings(res.Stubs)
	}()
	jobStart := time.Now()
	for len(ex.work) > 0 {
		if res.Paths >= maxPaths {
			res.Truncated = true
			break
		}
		if len(res.Violations) >= ex.maxViol {
			res.Truncated = true
			break
		}
		// wall-clock budget per job (20 min): exceeded only when a change to the code under test
		// multiplies the paths; the job is then reported as truncated (inconclusive), not explored for hours
		if time.Since(jobStart) > 20*time.Minute {
			res.Truncated = true
			break
		}
		// a job whose queries the solvers cannot decide is abandoned (and reported inconclusive)
		// instead of spending a solver timeout on every remaining path
		if res.Inconclusive >= 8 {
			res.Truncated = true
			break
		}
		prefix := ex.work[len(ex.work)-1]
		ex.work = ex.work[:len(ex.work)-1]
		ex.resetPath(prefix)
		ex.pathNo = res.Paths
		res.Paths++
		in := newInterp(w.prog, ex)
		if job.MaxSteps > 0 {
			in.maxStep = job.MaxSteps
		}
		if job.Lockset {
			in.acc = newAccessLog()
		}
		end := runPath(w, in, fn)
		res.Steps += in.steps
		res.NVars = max(res.NVars, len(ex.vars))
		if len(ex.pc) > 0 {
			res.Nontrivial++
		}
		if job.Concrete {
			res.Observed = in.observed
		}
		if job.Lockset && in.acc != nil {
			res.Candidates = append(res.Candidates, in.acc.candidates(in)...)
		}
		key := end
		if i := strings.IndexByte(key, ':'); i > 0 {
			key = key[:i]
		}
		res.Ends[key]++
		if end == "ok" {
			// implicit obligation of every path: it terminates without a Go panic or unwinding failure
			res.Asserts++
			res.Discharged++
		}
		if res.Sample == "" && end == "ok" && !job.Concrete {
			res.Sample = fmt.Sprintf("path#%d vars=%d pc=%d vector=%v", ex.pathNo, len(ex.vars), len(ex.pc), ex.vectorFrom(ex.currentModel()))
		}
	}
	return
}

// runPath executes the harness once along the current decision prefix; returns the outcome label.
func runPath(w *World, in *Interp, fn *ssa.Function) (end string) {
	ex := in.ex
	defer in.killAll()
	defer func() {
		r := recover()
		if r == nil {
			return
		}
		switch x := r.(type) {
		case pathEnd:
			end = x.why
			if strings.HasPrefix(x.why, "UNWIND") {
				ex.recordViolation("unwind", x.why, ex.currentModel())
			} else if strings.HasPrefix(x.why, "deadlock") {
				ex.recordViolation("deadlock", x.why+" "+in.describeGs(), ex.currentModel())
			}
		case goPanic:
			end = "panic"
			ex.recordViolation("panic", x.msg, ex.currentModel())
		case engineError:
			panic(fmt.Sprintf("engine error in %s: %s (last pos %s)", fn.Name(), x.msg, in.lastPos))
		default:
			panic(r)
		}
	}()
	w.initPackages(in)
	in.call(fn, nil, nil)
	return "ok"
}
