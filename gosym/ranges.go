package main

// A small interval analysis used to fold comparisons without the solver. Sound: every bound comes
// from a constraint that is in the path condition. Values are tracked as mathematical integers:
// the unsigned value for widths < 64, the signed value for width 64.

import "math"

type ival struct{ lo, hi int64 }

type rmemo struct {
	r  ival
	ok bool
}

// rangeOf is memoised per path (bounds only tighten along a path, so a cached interval stays sound).
func (e *Explorer) rangeOf(t *Term, depth int) (ival, bool) {
	if t.w == 0 {
		return ival{}, false
	}
	if t.isC() || t.op == "v" {
		return e.rangeOf0(t, depth)
	}
	if _, ok := e.bounds[t]; ok {
		return e.rangeOf0(t, depth)
	}
	if m, ok := e.rangeMemo[t]; ok {
		return m.r, m.ok
	}
	r, ok := e.rangeOf0(t, depth)
	e.rangeMemo[t] = rmemo{r, ok}
	return r, ok
}

func (e *Explorer) rangeOf0(t *Term, depth int) (ival, bool) {
	if t.w == 0 {
		return ival{}, false
	}
	if t.isC() {
		if t.w == 64 {
			return ival{t.sval(), t.sval()}, true
		}
		return ival{int64(t.c), int64(t.c)}, true
	}
	if b, ok := e.bounds[t]; ok {
		return b, true
	}
	if depth > 20000 {
		return e.defaultRange(t)
	}
	switch t.op {
	case "zext":
		if r, ok := e.rangeOf(t.args[0], depth+1); ok && t.args[0].w < 64 {
			return r, true
		}
	case "trunc":
		if r, ok := e.rangeOf(t.args[0], depth+1); ok && r.lo >= 0 && (t.w >= 63 || r.hi < int64(1)<<uint(t.w)) {
			return r, true
		}
	case "ite":
		a, ok1 := e.rangeOf(t.args[1], depth+1)
		b, ok2 := e.rangeOf(t.args[2], depth+1)
		if ok1 && ok2 {
			return ival{min(a.lo, b.lo), max(a.hi, b.hi)}, true
		}
	case "bvadd":
		a, ok1 := e.rangeOf(t.args[0], depth+1)
		b, ok2 := e.rangeOf(t.args[1], depth+1)
		if ok1 && ok2 && t.w == 64 {
			lo, o1 := addOv(a.lo, b.lo)
			hi, o2 := addOv(a.hi, b.hi)
			if !o1 && !o2 {
				return ival{lo, hi}, true
			}
		}
	case "bvsub":
		a, ok1 := e.rangeOf(t.args[0], depth+1)
		b, ok2 := e.rangeOf(t.args[1], depth+1)
		if ok1 && ok2 && t.w == 64 && b.lo != math.MinInt64 && b.hi != math.MinInt64 {
			lo, o1 := addOv(a.lo, -b.hi)
			hi, o2 := addOv(a.hi, -b.lo)
			if !o1 && !o2 {
				return ival{lo, hi}, true
			}
		}
	case "bvmul":
		a, ok1 := e.rangeOf(t.args[0], depth+1)
		if ok1 && t.w == 64 && t.args[1].isC() && a.lo >= 0 {
			c := t.args[1].sval()
			if c > 0 && a.hi < math.MaxInt64/c {
				return ival{a.lo * c, a.hi * c}, true
			}
		}
	case "bvudiv", "bvsdiv":
		a, ok1 := e.rangeOf(t.args[0], depth+1)
		if ok1 && t.w == 64 && t.args[1].isC() && a.lo >= 0 && t.args[1].sval() > 0 {
			c := t.args[1].sval()
			return ival{a.lo / c, a.hi / c}, true
		}
	case "bvurem", "bvsrem":
		a, ok1 := e.rangeOf(t.args[0], depth+1)
		if ok1 && t.w == 64 && t.args[1].isC() && a.lo >= 0 && t.args[1].sval() > 0 {
			c := t.args[1].sval()
			if a.hi < c {
				return a, true
			}
			return ival{0, c - 1}, true
		}
	}
	return e.defaultRange(t)
}

func (e *Explorer) defaultRange(t *Term) (ival, bool) {
	if t.w < 64 {
		return ival{0, int64(mask(t.w))}, true
	}
	return ival{}, false
}

func addOv(a, b int64) (int64, bool) {
	c := a + b
	if (a > 0 && b > 0 && c < 0) || (a < 0 && b < 0 && c >= 0) {
		return 0, true
	}
	return c, false
}

// foldByRange returns (value, true) when the comparison c is decided by interval reasoning.
func (e *Explorer) foldByRange(c *Term) (bool, bool) {
	if c.op == "not" {
		v, ok := e.foldByRange(c.args[0])
		return !v, ok
	}
	switch c.op {
	case "bvslt", "bvsle", "bvult", "bvule", "=":
	default:
		return false, false
	}
	a, b := c.args[0], c.args[1]
	if a.w == 0 {
		return false, false
	}
	ra, ok1 := e.rangeOf(a, 0)
	rb, ok2 := e.rangeOf(b, 0)
	if !ok1 || !ok2 {
		return false, false
	}
	unsignedOK := a.w < 64 || (ra.lo >= 0 && rb.lo >= 0)
	signedOK := a.w == 64
	if a.w < 64 {
		// signed comparison at narrow width: only when both are in the non-negative half
		half := int64(1) << uint(a.w-1)
		signedOK = ra.hi < half && rb.hi < half
	}
	switch c.op {
	case "=":
		if ra.hi < rb.lo || rb.hi < ra.lo {
			return false, true
		}
	case "bvslt":
		if signedOK {
			if ra.hi < rb.lo {
				return true, true
			}
			if ra.lo >= rb.hi {
				return false, true
			}
		}
	case "bvsle":
		if signedOK {
			if ra.hi <= rb.lo {
				return true, true
			}
			if ra.lo > rb.hi {
				return false, true
			}
		}
	case "bvult":
		if unsignedOK {
			if ra.hi < rb.lo {
				return true, true
			}
			if ra.lo >= rb.hi {
				return false, true
			}
		}
	case "bvule":
		if unsignedOK {
			if ra.hi <= rb.lo {
				return true, true
			}
			if ra.lo > rb.hi {
				return false, true
			}
		}
	}
	return false, false
}

// learnBounds tightens the interval table from a constraint that has just been added to the pc.
func (e *Explorer) learnBounds(c *Term) {
	neg := false
	if c.op == "not" {
		neg = true
		c = c.args[0]
	}
	switch c.op {
	case "bvslt", "bvsle", "bvult", "bvule":
	default:
		return
	}
	a, b := c.args[0], c.args[1]
	if a.w != 64 && a.w != 8 && a.w != 32 && a.w != 16 {
		return
	}
	op := c.op
	if neg { // not(a < b) == b <= a ; not(a <= b) == b < a
		a, b = b, a
		switch op {
		case "bvslt":
			op = "bvsle"
		case "bvsle":
			op = "bvslt"
		case "bvult":
			op = "bvule"
		case "bvule":
			op = "bvult"
		}
	}
	unsigned := op == "bvult" || op == "bvule"
	strict := op == "bvslt" || op == "bvult"
	val := func(t *Term) int64 {
		if t.w == 64 {
			return t.sval()
		}
		return int64(t.c)
	}
	if b.isC() && !a.isC() { // a (<|<=) C : upper bound on a
		cv := val(b)
		if unsigned && a.w == 64 && cv < 0 {
			return
		}
		if a.w < 64 && !unsigned {
			return
		}
		r, ok := e.rangeOf(a, 0)
		if !ok {
			r = ival{math.MinInt64, math.MaxInt64}
		}
		if unsigned && a.w == 64 {
			// a <u C with C >= 0 (signed view) implies 0 <= a
			if r.lo < 0 {
				r.lo = 0
			}
		}
		hi := cv
		if strict {
			hi--
		}
		if hi < r.hi {
			r.hi = hi
		}
		e.bounds[a] = r
	} else if a.isC() && !b.isC() { // C (<|<=) b : lower bound on b
		cv := val(a)
		if b.w < 64 && !unsigned {
			return
		}
		r, ok := e.rangeOf(b, 0)
		if !ok {
			r = ival{math.MinInt64, math.MaxInt64}
		}
		if unsigned && b.w == 64 {
			// C <=u b says nothing in the signed view unless b is known non-negative
			if r.lo < 0 || cv < 0 {
				return
			}
		}
		lo := cv
		if strict {
			lo++
		}
		if lo > r.lo {
			r.lo = lo
		}
		e.bounds[b] = r
	}
}
