package main

import (
	"bufio"
	"encoding/json"
	"fmt"
	"os"
	"strconv"
	"strings"
)

func usage() {
	fmt.Fprintln(os.Stderr, `usage:
  gosym check <ID> [--tier quick|thorough]     run the registered check of a property
  gosym run <pkg-rel-dir> <Harness> [params..] run one harness job (development)
  gosym replay <ID> <path>                     replay a recorded counterexample natively
  gosym selftest                               validate engine models against the Go standard library
  gosym worker                                 (internal) job server on stdin/stdout`)
	os.Exit(2)
}

func main() {
	if len(os.Args) < 2 {
		usage()
	}
	if d := os.Getenv("GOSYM_REPO"); d != "" {
		repoDir = d
	}
	if d := os.Getenv("GOSYM_VERIF"); d != "" {
		verifDir = d
	}
	switch os.Args[1] {
	case "worker":
		workerMain()
	case "run":
		devRun(os.Args[2:])
	case "check":
		os.Exit(checkMain(os.Args[2:]))
	case "replay":
		os.Exit(replayMain(os.Args[2:]))
	case "selftest":
		os.Exit(selfTest())
	default:
		usage()
	}
}

func pkgPathOf(rel string) string {
	rel = strings.TrimPrefix(rel, "./")
	if rel == "" || rel == "." || rel == "root" {
		return modPath
	}
	return modPath + "/" + rel
}

func workerMain() {
	w, err := loadWorld(nil, nil)
	out := bufio.NewWriter(os.Stdout)
	enc := json.NewEncoder(out)
	if err != nil {
		enc.Encode(map[string]string{"fatal": err.Error()})
		out.Flush()
		os.Exit(3)
	}
	enc.Encode(map[string]string{"ready": "1"})
	out.Flush()
	sc := bufio.NewScanner(os.Stdin)
	sc.Buffer(make([]byte, 1<<20), 1<<26)
	for sc.Scan() {
		var job Job
		if err := json.Unmarshal(sc.Bytes(), &job); err != nil {
			enc.Encode(map[string]string{"fatal": "bad job: " + err.Error()})
			out.Flush()
			continue
		}
		res := runJob(w, job)
		enc.Encode(res)
		out.Flush()
	}
	for _, s := range solvers {
		s.Close()
	}
}

func devRun(args []string) {
	if len(args) < 2 {
		usage()
	}
	job := Job{Pkg: pkgPathOf(args[0]), Harness: args[1], WantFuncs: os.Getenv("GOSYM_FUNCS") != ""}
	for _, a := range args[2:] {
		if strings.HasPrefix(a, "--") {
			kv := strings.SplitN(a[2:], "=", 2)
			switch kv[0] {
			case "solver":
				job.Solver = kv[1]
			case "cross":
				job.Cross, _ = strconv.Atoi(kv[1])
			case "maxpaths":
				job.MaxPaths, _ = strconv.Atoi(kv[1])
			case "maxviol":
				job.MaxViol, _ = strconv.Atoi(kv[1])
			case "lockset":
				job.Lockset = true
			case "vector":
				job.Concrete = true
				for _, x := range strings.Split(kv[1], ",") {
					if x == "" {
						continue
					}
					u, _ := strconv.ParseUint(x, 10, 64)
					job.Vector = append(job.Vector, u)
				}
			}
			continue
		}
		n, err := strconv.Atoi(a)
		if err != nil {
			usage()
		}
		job.Params = append(job.Params, n)
	}
	w, err := loadWorld(nil, nil)
	if err != nil {
		fmt.Fprintln(os.Stderr, err)
		os.Exit(3)
	}
	res := runJob(w, job)
	b, _ := json.MarshalIndent(res, "", " ")
	fmt.Println(string(b))
	for _, s := range solvers {
		s.Close()
	}
}
