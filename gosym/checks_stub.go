package main

func checkMain(args []string) int  { return 2 }
func replayMain(args []string) int { return 2 }
func selfTest() int                { return 0 }
