package main

// Access log for the lockset analysis (C20): every load/store of a heap cell is recorded with the
// goroutine role, the set of mutexes held and whether it was atomic.

import (
	"fmt"
	"sort"
	"strings"

	"golang.org/x/tools/go/ssa"
)

type access struct {
	role   string
	g      int
	write  bool
	atomic bool
	locks  []int
	pos    string
	seq    int
}

type raceCand struct {
	Cell  string `json:"cell"`
	A     string `json:"a"`
	B     string `json:"b"`
	RoleA string `json:"role_a"`
	RoleB string `json:"role_b"`
}

type accessLog struct {
	byCell map[interface{}][]access
	born   map[interface{}]int
	seq    int
	names  map[interface{}]string
}

func newAccessLog() *accessLog {
	return &accessLog{byCell: map[interface{}][]access{}, born: map[interface{}]int{}, names: map[interface{}]string{}}
}

func (a *accessLog) add(in *Interp, p interface{}, write, atomic bool, pos string) {
	g := in.cur
	if g.role == "" || in.accPaused {
		return
	}
	a.seq++
	var locks []int
	for _, m := range g.held {
		locks = append(locks, m.id)
	}
	a.byCell[p] = append(a.byCell[p], access{role: g.role, g: g.id, write: write, atomic: atomic, locks: locks, pos: pos, seq: a.seq})
}

func (a *accessLog) note(in *Interp, p interface{}, write bool, ins ssa.Instruction) {
	if in.cur.role == "" {
		return
	}
	// only accesses made by library code count (harness code reads state to assert on it)
	if f := ins.Parent(); f != nil {
		n := in.prog.Fset.Position(ins.Pos()).Filename
		if strings.Contains(n, "zz_verif_") || strings.Contains(n, "/zzverif/") {
			return
		}
	}
	a.add(in, p, write, false, in.pos(ins))
}

func (a *accessLog) noteAtomic(in *Interp, p *Value, write bool) {
	a.add(in, p, write, true, "atomic")
}

func disjoint(x, y []int) bool {
	for _, i := range x {
		for _, j := range y {
			if i == j {
				return false
			}
		}
	}
	return true
}

func (a *accessLog) candidates(in *Interp) []raceCand {
	seen := map[string]bool{}
	var out []raceCand
	for _, accs := range a.byCell {
		for i := 0; i < len(accs); i++ {
			for j := i + 1; j < len(accs); j++ {
				x, y := accs[i], accs[j]
				if x.role == y.role || (!x.write && !y.write) || (x.atomic && y.atomic) {
					continue
				}
				if !disjoint(x.locks, y.locks) {
					continue
				}
				k := x.pos + "|" + y.pos
				if x.pos > y.pos {
					k = y.pos + "|" + x.pos
				}
				if seen[k] {
					continue
				}
				seen[k] = true
				out = append(out, raceCand{Cell: fmt.Sprintf("%T", cellKey(a, accs)), A: fmt.Sprintf("%s %s", rw(x.write), x.pos), B: fmt.Sprintf("%s %s", rw(y.write), y.pos), RoleA: x.role, RoleB: y.role})
			}
		}
	}
	sort.Slice(out, func(i, j int) bool { return strings.Compare(out[i].A+out[i].B, out[j].A+out[j].B) < 0 })
	return out
}

func rw(w bool) string {
	if w {
		return "write"
	}
	return "read"
}

func cellKey(a *accessLog, accs []access) interface{} {
	for k, v := range a.byCell {
		if len(v) > 0 && len(accs) > 0 && &v[0] == &accs[0] {
			return k
		}
	}
	return nil
}
