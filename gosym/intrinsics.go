package main

// Models of external (stdlib) callees and of the harness API (package zzverif).
// Every model used on a run is listed in the evidence ("stubs").

import (
	"encoding/hex"
	"fmt"
	"go/types"
	"math"
	"strconv"
	"strings"
	"time"

	"golang.org/x/tools/go/ssa"
)

var timeType types.Type     // time.Time
var errStringPtr types.Type // *errors.errorString
var numErrorPtr types.Type  // *strconv.NumError
var parseErrPtr types.Type  // *time.ParseError

func float64bits(f float64) uint64     { return math.Float64bits(f) }
func float64frombits(b uint64) float64 { return math.Float64frombits(b) }

type fmtMemoEntry struct {
	kind   string // "float" | "time" | "uint"
	key    *Term
	layout string
	out    Str
}

func isModulePath(p string) bool { return strings.HasPrefix(p, "github.com/b2broker/simplefix-go") }

// packages whose init functions are executed for real
var initReal = map[string]bool{"io": true, "bufio": true, "strconv": true, "unicode/utf8": true}

func (in *Interp) newErr(text string) Value {
	in.errCount++
	var cell Value = Struct{mkStr(text)}
	return Iface{t: errStringPtr, v: &cell}
}

func termArg(v Value) *Term { return v.(*Term) }

func (in *Interp) stub(name string) { in.ex.stubs[name] = true }

func (in *Interp) intrinsic(fn *ssa.Function, args []Value) (Value, bool) {
	e := in.ex
	if fn.Pkg == nil {
		// synthetic wrappers etc.
		return nil, false
	}
	pp := fn.Pkg.Pkg.Path()
	if fn.Name() == "init" && fn.Signature.Recv() == nil {
		if isModulePath(pp) || initReal[pp] {
			return nil, false
		}
		return nil, true
	}
	if pp == zzverifPath {
		return in.harnessAPI(fn, args)
	}
	if isModulePath(pp) {
		if in.timerStub && fn.Name() == "TakeTimeout" && pp == modPath+"/utils" {
			// harness-driven timer: block until the harness fires this timer
			p := args[0].(*Value)
			idx := in.timerIndex(p)
			in.timerWaiting[idx]++
			// contract of TakeTimeout: returns when the timeout is reached or Close was called
			closed := func() bool {
				if c, ok := in.timerField(idx, "ctx").(Iface); ok {
					if cx, ok := c.v.(*Ctx); ok {
						return cx.isCancelled()
					}
				}
				return false
			}
			in.block(func() bool { return in.timerFired[idx] > 0 || closed() }, "Timer.TakeTimeout (stub) #"+strconv.Itoa(idx))
			if in.timerFired[idx] > 0 {
				in.timerFired[idx]--
			}
			in.timerWaiting[idx]--
			return nil, true
		}
		return nil, false
	}
	name := fn.String()
	switch name {
	case "bytes.Equal":
		in.stub(name)
		a, b := args[0].(Slice), args[1].(Slice)
		if len(a) != len(b) {
			return B(false), true
		}
		r := B(true)
		for i := range a {
			r = And(r, Bin("=", a[i].(*Term), b[i].(*Term)))
		}
		return r, true
	case "bytes.Index":
		in.stub(name)
		return in.indexOf(args[0].(Slice), args[1].(Slice)), true
	case "bytes.IndexByte":
		in.stub(name)
		return in.indexOf(args[0].(Slice), Slice{args[1]}), true
	case "bytes.Contains":
		in.stub(name)
		r := in.indexOf(args[0].(Slice), args[1].(Slice))
		return B(r.sval() >= 0), true
	case "bytes.HasPrefix":
		in.stub(name)
		s, p := args[0].(Slice), args[1].(Slice)
		if len(s) < len(p) {
			return B(false), true
		}
		r := B(true)
		for i := range p {
			r = And(r, Bin("=", s[i].(*Term), p[i].(*Term)))
		}
		return r, true
	case "bytes.Split", "bytes.SplitN":
		in.stub(name)
		src, sep := args[0].(Slice), args[1].(Slice)
		limit := -1
		if name == "bytes.SplitN" {
			limit = in.concrete(args[2].(*Term), "SplitN n")
		}
		if limit == 0 {
			return Slice(nil), true
		}
		if len(sep) == 0 {
			panic(engineError{"bytes.Split with empty separator"})
		}
		var parts Slice
		rest := src
		for limit < 0 || len(parts) < limit-1 {
			i := in.indexOf(rest, sep)
			if i.sval() < 0 {
				break
			}
			k := int(i.sval())
			parts = append(parts, rest[:k:k])
			rest = rest[k+len(sep):]
		}
		parts = append(parts, rest[:len(rest):len(rest)])
		return parts, true
	case "bytes.TrimSpace", "bytes.ToUpper", "bytes.ToLower":
		if b, ok := sliceConcrete(args[0].(Slice)); ok {
			in.stub(name)
			switch name {
			case "bytes.TrimSpace":
				return bytesToSlice([]byte(strings.TrimSpace(string(b)))), true
			case "bytes.ToUpper":
				return bytesToSlice([]byte(strings.ToUpper(string(b)))), true
			default:
				return bytesToSlice([]byte(strings.ToLower(string(b)))), true
			}
		}
		if name == "bytes.TrimSpace" {
			in.stub(name)
			return in.trimSpaceBytes(args[0].(Slice)), true
		}
	case "bytes.HasSuffix":
		in.stub(name)
		sx, px := args[0].(Slice), args[1].(Slice)
		if len(sx) < len(px) {
			return B(false), true
		}
		r := B(true)
		off := len(sx) - len(px)
		for i := range px {
			r = And(r, Bin("=", sx[off+i].(*Term), px[i].(*Term)))
		}
		return r, true
	case "bytes.Count":
		in.stub(name)
		sx, px := args[0].(Slice), args[1].(Slice)
		if len(px) == 0 {
			panic(engineError{"bytes.Count with empty separator"})
		}
		n := 0
		rest := sx
		for {
			i := in.indexOf(rest, px)
			if i.sval() < 0 {
				break
			}
			n++
			rest = rest[int(i.sval())+len(px):]
		}
		return C(64, uint64(n)), true
	case "bytes.LastIndex", "bytes.LastIndexByte":
		in.stub(name)
		sx := args[0].(Slice)
		var px Slice
		if name == "bytes.LastIndexByte" {
			px = Slice{args[1]}
		} else {
			px = args[1].(Slice)
		}
		for i := len(sx) - len(px); i >= 0; i-- {
			m := B(true)
			for j := range px {
				m = And(m, Bin("=", sx[i+j].(*Term), px[j].(*Term)))
			}
			if in.ex.decide(m) {
				return C(64, uint64(i)), true
			}
		}
		return C(64, ^uint64(0)), true
	case "strings.ToValidUTF8", "unicode/utf8.ValidString":
		// symbolic UTF-8 validation, sequence by sequence (decodeRuneSym forks per encoding class):
		// well-formed sequences are kept, every run of malformed bytes becomes one replacement
		in.stub(name)
		var repl []*Term
		if name == "strings.ToValidUTF8" {
			repl = args[1].(Str).b
		}
		out, valid := in.toValidUTF8Sym(args[0].(Str).b, repl)
		if name == "unicode/utf8.ValidString" {
			return B(valid), true
		}
		return Str{b: out}, true
	case "strings.TrimSpace", "strings.TrimLeft", "strings.TrimRight", "strings.Trim":
		// ASCII white space (for Trim*: the cutset must be concrete ASCII); forks on the bytes at both ends
		in.stub(name)
		str := args[0].(Str)
		cut := " \t\n\v\f\r"
		if name != "strings.TrimSpace" {
			c, ok := args[1].(Str).concrete()
			if !ok {
				panic(engineError{name + " with symbolic cutset"})
			}
			cut = c
		}
		inCut := func(b *Term) *Term {
			r := B(false)
			for i := 0; i < len(cut); i++ {
				r = Or(r, Bin("=", b, C(8, uint64(cut[i]))))
			}
			return r
		}
		lo, hi := 0, len(str.b)
		if name != "strings.TrimRight" {
			for lo < hi && in.ex.decide(inCut(str.b[lo])) {
				lo++
			}
		}
		if name != "strings.TrimLeft" {
			for hi > lo && in.ex.decide(inCut(str.b[hi-1])) {
				hi--
			}
		}
		if name == "strings.TrimSpace" {
			// non-ASCII space characters (U+0085, U+00A0, ...) are not modelled
			for _, b := range str.b[lo:hi] {
				if !b.isC() {
					if in.ex.decide(Bin("bvule", C(8, 0x80), b)) {
						panic(pathEnd{"assume-false"}) // bound: ASCII contents for TrimSpace
					}
				}
			}
		}
		return Str{b: str.b[lo:hi:hi]}, true
	case "strings.HasPrefix", "strings.HasSuffix":
		in.stub(name)
		sx, px := args[0].(Str), args[1].(Str)
		if len(sx.b) < len(px.b) {
			return B(false), true
		}
		off := 0
		if name == "strings.HasSuffix" {
			off = len(sx.b) - len(px.b)
		}
		r := B(true)
		for i := range px.b {
			r = And(r, Bin("=", sx.b[off+i], px.b[i]))
		}
		return r, true
	case "strings.Index":
		in.stub(name)
		return in.indexOf(strSlice(args[0].(Str)), strSlice(args[1].(Str))), true
	case "strings.Contains":
		in.stub(name)
		r := in.indexOf(strSlice(args[0].(Str)), strSlice(args[1].(Str)))
		return B(r.sval() >= 0), true
	case "strings.Join":
		in.stub(name)
		ss, sep := args[0].(Slice), args[1].(Str)
		var r []*Term
		for i, x := range ss {
			if i > 0 {
				r = append(r, sep.b...)
			}
			r = append(r, x.(Str).b...)
		}
		return Str{b: r}, true
	case "bytes.Join":
		in.stub(name)
		ss, sep := args[0].(Slice), args[1].(Slice)
		if len(ss) == 0 {
			return Slice{}, true
		}
		n := len(sep) * (len(ss) - 1)
		for _, x := range ss {
			n += len(x.(Slice))
		}
		r := make(Slice, 0, n)
		for i, x := range ss {
			if i > 0 {
				r = append(r, sep...)
			}
			r = append(r, x.(Slice)...)
		}
		return r, true
	case "strconv.Itoa":
		in.stub(name)
		return in.fmtInt(args[0].(*Term), true), true
	case "strconv.FormatInt":
		if b := args[1].(*Term); b.isC() && b.c == 10 {
			in.stub(name)
			return in.fmtInt(args[0].(*Term), true), true
		}
	case "strconv.FormatUint":
		if b := args[1].(*Term); b.isC() && b.c == 10 {
			in.stub(name)
			return in.fmtInt(args[0].(*Term), false), true
		}
	case "strconv.AppendInt":
		if b := args[2].(*Term); b.isC() && b.c == 10 {
			in.stub(name)
			return appendStr(args[0].(Slice), in.fmtInt(args[1].(*Term), true)), true
		}
	case "strconv.AppendUint":
		if b := args[2].(*Term); b.isC() && b.c == 10 {
			in.stub(name)
			return appendStr(args[0].(Slice), in.fmtInt(args[1].(*Term), false)), true
		}
	case "strconv.AppendFloat":
		in.stub(name)
		r, _ := in.intrinsic(in.prog.ImportedPackage("strconv").Func("FormatFloat"), args[1:])
		return appendStr(args[0].(Slice), r.(Str)), true
	case "strconv.FormatBool":
		in.stub(name)
		if in.ex.decide(args[0].(*Term)) {
			return mkStr("true"), true
		}
		return mkStr("false"), true
	case "time.Unix":
		in.stub(name)
		return in.mkTime(Bin("bvadd", Bin("bvmul", args[0].(*Term), C(64, 1000000000)), args[1].(*Term))), true
	case "time.UnixMilli":
		in.stub(name)
		return in.mkTime(Bin("bvmul", args[0].(*Term), C(64, 1000000))), true
	case "strconv.Atoi":
		in.stub(name)
		v, ok := in.parseInt(args[0].(Str), true)
		if !ok {
			return Tuple{C(64, 0), in.numError()}, true
		}
		return Tuple{v, Iface{}}, true
	case "strconv.ParseUint":
		if b := args[1].(*Term); b.isC() && b.c == 10 {
			in.stub(name)
			v, ok := in.parseInt(args[0].(Str), false)
			if !ok {
				return Tuple{C(64, 0), in.numError()}, true
			}
			return Tuple{v, Iface{}}, true
		}
	case "strconv.ParseInt":
		if b := args[1].(*Term); b.isC() && b.c == 10 {
			in.stub(name)
			v, ok := in.parseInt(args[0].(Str), true)
			if !ok {
				return Tuple{C(64, 0), in.numError()}, true
			}
			return Tuple{v, Iface{}}, true
		}
	case "strconv.FormatFloat":
		in.stub(name)
		f := args[0].(Flt)
		fm, prec, bs := args[1].(*Term), args[2].(*Term), args[3].(*Term)
		if !fm.isC() || !prec.isC() || !bs.isC() {
			panic(engineError{"FormatFloat symbolic format"})
		}
		if f.i != nil && f.i.isC() {
			return mkStr(strconv.FormatFloat(float64(f.i.sval()), byte(fm.c), int(prec.sval()), int(bs.sval()))), true
		}
		if f.bits != nil && f.bits.isC() {
			return mkStr(strconv.FormatFloat(float64frombits(f.bits.c), byte(fm.c), int(prec.sval()), int(bs.sval()))), true
		}
		key := f.bits
		if key == nil {
			key = f.i
		}
		return in.opaqueFormat("float", key, fmt.Sprintf("%c/%d/%d", byte(fm.c), prec.sval(), bs.sval())), true
	case "strconv.ParseFloat":
		in.stub(name)
		s := args[0].(Str)
		if cs, ok := s.concrete(); ok {
			f, err := strconv.ParseFloat(cs, 64)
			if err != nil {
				return Tuple{Flt{bits: C(64, float64bits(f))}, in.numError()}, true
			}
			return Tuple{Flt{bits: C(64, float64bits(f))}, Iface{}}, true
		}
		if k, ok := in.opaqueParse("float", "f/-1/64", s); ok {
			return Tuple{Flt{bits: k}, Iface{}}, true
		}
		// unknown text: either it parses to some float or it does not
		if e.decide(e.freshAux(0, "pfok")) {
			return Tuple{Flt{bits: e.freshAux(64, "pf")}, Iface{}}, true
		}
		return Tuple{Flt{bits: C(64, 0)}, in.numError()}, true
	case "(time.Time).Format":
		in.stub(name)
		t := args[0].(Struct)
		lay, ok := args[1].(Str).concrete()
		if !ok {
			panic(engineError{"Time.Format symbolic layout"})
		}
		ns := t[1].(*Term)
		if ns.isC() {
			return mkStr(time.Unix(0, ns.sval()).UTC().Format(lay)), true
		}
		return in.opaqueFormat("time", ns, lay), true
	case "time.Parse":
		in.stub(name)
		lay, ok := args[0].(Str).concrete()
		if !ok {
			panic(engineError{"time.Parse symbolic layout"})
		}
		s := args[1].(Str)
		if cs, ok := s.concrete(); ok {
			tt, err := time.Parse(lay, cs)
			if err != nil {
				in.errCount++
				var cell Value = zero(parseErrPtr.(*types.Pointer).Elem())
				return Tuple{zero(timeType), Iface{t: parseErrPtr, v: &cell}}, true
			}
			return Tuple{in.mkTime(C(64, uint64(tt.UnixNano()))), Iface{}}, true
		}
		if k, ok := in.opaqueParse("time", lay, s); ok {
			return Tuple{in.mkTime(k), Iface{}}, true
		}
		if e.decide(e.freshAux(0, "ptok")) {
			return Tuple{in.mkTime(e.freshAux(64, "pt")), Iface{}}, true
		}
		in.errCount++
		var cell Value = zero(parseErrPtr.(*types.Pointer).Elem())
		return Tuple{zero(timeType), Iface{t: parseErrPtr, v: &cell}}, true
	case "time.Now":
		in.stub(name)
		return in.timeNow(), true
	case "(time.Time).In", "(time.Time).UTC", "(time.Time).Local", "(time.Time).Round", "(time.Time).Truncate":
		in.stub(name)
		return args[0], true
	case "(time.Time).Add":
		in.stub(name)
		t := args[0].(Struct)
		return in.mkTime(Bin("bvadd", t[1].(*Term), args[1].(*Term))), true
	case "(time.Time).Sub":
		in.stub(name)
		return Bin("bvsub", args[0].(Struct)[1].(*Term), args[1].(Struct)[1].(*Term)), true
	case "time.Until":
		in.stub(name)
		now := in.timeNow().(Struct)
		return Bin("bvsub", args[0].(Struct)[1].(*Term), now[1].(*Term)), true
	case "time.Since":
		in.stub(name)
		now := in.timeNow().(Struct)
		return Bin("bvsub", now[1].(*Term), args[0].(Struct)[1].(*Term)), true
	case "(time.Time).Before":
		in.stub(name)
		return Bin("bvslt", args[0].(Struct)[1].(*Term), args[1].(Struct)[1].(*Term)), true
	case "(time.Time).After":
		in.stub(name)
		return Bin("bvslt", args[1].(Struct)[1].(*Term), args[0].(Struct)[1].(*Term)), true
	case "(time.Time).Equal":
		in.stub(name)
		return Bin("=", args[1].(Struct)[1].(*Term), args[0].(Struct)[1].(*Term)), true
	case "(time.Time).IsZero":
		in.stub(name)
		return Bin("=", args[0].(Struct)[1].(*Term), C(64, 0)), true
	case "(time.Time).UnixNano":
		in.stub(name)
		return args[0].(Struct)[1], true
	case "time.LoadLocation":
		in.stub(name)
		return Tuple{(*Value)(nil), Iface{}}, true
	case "time.NewTicker":
		in.stub(name)
		tk := zero(fn.Signature.Results().At(0).Type().(*types.Pointer).Elem()).(Struct)
		var cell Value = tk
		tk[0] = &Chan{tick: &cell, cap: 1}
		in.armed = append(in.armed, armedWait{at: in.timeNow().(Struct)[1].(*Term), d: args[0].(*Term), kind: "ticker"})
		return &cell, true
	case "(*time.Ticker).Stop", "(*time.Ticker).Reset":
		in.stub(name)
		return nil, true
	case "time.NewTimer":
		// one-shot timer: channel fires when the harness ticks; the arming (instant, duration) is recorded
		in.stub(name)
		tk := zero(fn.Signature.Results().At(0).Type().(*types.Pointer).Elem()).(Struct)
		var cell Value = tk
		tk[0] = &Chan{tick: &cell, cap: 1}
		in.armed = append(in.armed, armedWait{at: in.timeNow().(Struct)[1].(*Term), d: args[0].(*Term), kind: "timer"})
		return &cell, true
	case "(*time.Timer).Reset":
		in.stub(name)
		in.armed = append(in.armed, armedWait{at: in.timeNow().(Struct)[1].(*Term), d: args[1].(*Term), kind: "timer-reset"})
		return B(true), true
	case "time.After":
		in.stub(name)
		in.armed = append(in.armed, armedWait{at: in.timeNow().(Struct)[1].(*Term), d: args[0].(*Term), kind: "after"})
		var cell Value = Struct{}
		return &Chan{tick: &cell, cap: 1}, true
	case "time.AfterFunc":
		in.stub(name)
		var cell Value = zero(fn.Signature.Results().At(0).Type().(*types.Pointer).Elem())
		af := &afterFunc{d: args[0].(*Term), f: args[1], ptr: &cell}
		in.afterFuncs = append(in.afterFuncs, af)
		return &cell, true
	case "(*time.Timer).Stop":
		in.stub(name)
		for _, af := range in.afterFuncs {
			if af.ptr == args[0].(*Value) {
				was := !af.stopped && !af.fired
				af.stopped = true
				return B(was), true
			}
		}
		return B(false), true
	case "time.Sleep":
		in.stub(name)
		in.yieldAll()
		return nil, true
	case "math.Max", "math.Min":
		in.stub(name)
		a, b := args[0].(Flt), args[1].(Flt)
		if a.i == nil || b.i == nil {
			panic(engineError{"math.Max on opaque float"})
		}
		c := Bin("bvslt", a.i, b.i)
		if name == "math.Min" {
			c = Bin("bvslt", b.i, a.i)
		}
		return Flt{i: Ite(c, b.i, a.i)}, true
	case "errors.New":
		return nil, false // real code: allocates a fresh *errorString
	case "fmt.Errorf":
		in.stub(name)
		e := in.newErr(in.sprintf(args[0].(Str), args[1].(Slice)))
		// %w: remember the wrapped error for errors.Is / errors.Unwrap
		if fs, ok := args[0].(Str).concrete(); ok {
			ai := 0
			for i := 0; i+1 < len(fs); i++ {
				if fs[i] != '%' {
					continue
				}
				j := i + 1
				for j < len(fs) && (fs[j] == '0' || fs[j] == '-' || fs[j] == '+' || (fs[j] >= '1' && fs[j] <= '9') || fs[j] == '.') {
					j++
				}
				if j >= len(fs) || fs[j] == '%' {
					i = j
					continue
				}
				if fs[j] == 'w' && ai < len(args[1].(Slice)) {
					if w, ok := args[1].(Slice)[ai].(Iface); ok {
						if in.wraps == nil {
							in.wraps = map[*Value]Value{}
						}
						in.wraps[e.(Iface).v.(*Value)] = w
					}
				}
				ai++
				i = j
			}
		}
		return e, true
	case "fmt.Sprintf":
		in.stub(name)
		return in.sprintfStr(args[0].(Str), args[1].(Slice)), true
	case "fmt.Sprint", "fmt.Sprintln":
		in.stub(name)
		return mkStr("<fmt>"), true
	case "fmt.Println", "fmt.Printf", "fmt.Print", "log.Println", "log.Printf", "log.Print":
		in.stub(name)
		return Tuple{C(64, 0), Iface{}}, true
	case "reflect.TypeOf":
		in.stub(name)
		return Iface{}, true
	case "context.Background", "context.TODO":
		in.stub(name)
		return Iface{t: ctxNamedType, v: newCtx(nil)}, true
	case "context.WithCancel":
		in.stub(name)
		par, _ := args[0].(Iface).v.(*Ctx)
		c := newCtx(par)
		cancel := &NativeFn{name: "cancel", f: func(in *Interp, _ []Value) Value {
			in.schedPoint("cancel")
			c.cancelled = true
			return nil
		}}
		return Tuple{Iface{t: ctxNamedType, v: c}, cancel}, true
	case "context.WithTimeout", "context.WithDeadline":
		// child context whose deadline is a recorded timer the harness can fire
		in.stub(name)
		par, _ := args[0].(Iface).v.(*Ctx)
		c := newCtx(par)
		cancel := &NativeFn{name: "cancel", f: func(in *Interp, _ []Value) Value {
			c.cancelled = true
			return nil
		}}
		d, ok := args[1].(*Term)
		if !ok {
			d = C(64, 0)
		}
		var cell Value = Struct{}
		in.afterFuncs = append(in.afterFuncs, &afterFunc{d: d, f: cancel, ptr: &cell})
		return Tuple{Iface{t: ctxNamedType, v: c}, cancel}, true
	case "(*sync.Mutex).Lock":
		in.lock(args[0].(*Value), true, "")
		return nil, true
	case "(*sync.Mutex).Unlock":
		in.unlock(args[0].(*Value), true, "")
		return nil, true
	case "(*sync.RWMutex).Lock":
		in.lock(args[0].(*Value), true, "")
		return nil, true
	case "(*sync.RWMutex).Unlock":
		in.unlock(args[0].(*Value), true, "")
		return nil, true
	case "(*sync.RWMutex).RLock":
		in.lock(args[0].(*Value), false, "")
		return nil, true
	case "(*sync.RWMutex).RUnlock":
		in.unlock(args[0].(*Value), false, "")
		return nil, true
	case "(*sync.Once).Do":
		p := args[0].(*Value)
		m := in.mutexOf(p) // reuse the side table: locked == done
		if !m.locked {
			m.locked = true
			in.invokeVal(args[1], nil)
		}
		return nil, true
	case "(*sync.WaitGroup).Add":
		m := in.mutexOf(args[0].(*Value))
		m.readers += int(args[1].(*Term).sval())
		return nil, true
	case "(*sync.WaitGroup).Done":
		m := in.mutexOf(args[0].(*Value))
		m.readers--
		return nil, true
	case "(*sync.WaitGroup).Wait":
		m := in.mutexOf(args[0].(*Value))
		in.block(func() bool { return m.readers <= 0 }, "WaitGroup.Wait")
		return nil, true
	case "sync/atomic.AddInt64", "sync/atomic.AddInt32", "sync/atomic.AddUint64":
		in.schedPoint("atomic")
		p := args[0].(*Value)
		if in.acc != nil {
			in.acc.noteAtomic(in, p, true)
		}
		n := Bin("bvadd", (*p).(*Term), args[1].(*Term))
		*p = n
		return n, true
	case "sync/atomic.LoadInt64", "sync/atomic.LoadInt32", "sync/atomic.LoadUint64":
		in.schedPoint("atomic")
		p := args[0].(*Value)
		if in.acc != nil {
			in.acc.noteAtomic(in, p, false)
		}
		return *p, true
	case "sync/atomic.StoreInt64", "sync/atomic.StoreInt32", "sync/atomic.StoreUint64":
		in.schedPoint("atomic")
		p := args[0].(*Value)
		if in.acc != nil {
			in.acc.noteAtomic(in, p, true)
		}
		*p = args[1]
		return nil, true
	case "internal/bytealg.IndexByte":
		return in.indexOf(args[0].(Slice), Slice{args[1]}), true
	case "internal/bytealg.IndexByteString":
		return in.indexOf(strSlice(args[0].(Str)), Slice{args[1]}), true
	case "internal/bytealg.MakeNoZero":
		n := in.concrete(args[0].(*Term), "MakeNoZero")
		s := make(Slice, n)
		for i := range s {
			s[i] = C(8, 0)
		}
		return s, true
	case "errors.Is":
		// identity along the %w chain recorded by the fmt.Errorf model
		in.stub(name)
		cur := args[0]
		for depth := 0; depth < 32; depth++ {
			if in.valEq(cur, args[1]).isTrue() {
				return B(true), true
			}
			ci, ok := cur.(Iface)
			if !ok {
				break
			}
			p, ok := ci.v.(*Value)
			if !ok {
				break
			}
			nx, ok := in.wraps[p]
			if !ok {
				break
			}
			cur = nx
		}
		return B(false), true
	case "errors.As":
		in.stub(name)
		tgt, ok := args[1].(Iface)
		if !ok || tgt.t == nil {
			panic(goPanic{"errors: target cannot be nil"})
		}
		pt, ok := tgt.t.Underlying().(*types.Pointer)
		if !ok {
			panic(goPanic{"errors: target must be a non-nil pointer"})
		}
		cell := tgt.v.(*Value)
		cur := args[0]
		for depth := 0; depth < 32; depth++ {
			ci, ok := cur.(Iface)
			if !ok || ci.t == nil {
				break
			}
			if it, isI := pt.Elem().Underlying().(*types.Interface); isI {
				if types.Implements(ci.t, it) {
					*cell = ci
					return B(true), true
				}
			} else if types.Identical(ci.t, pt.Elem()) {
				*cell = copyVal(ci.v)
				return B(true), true
			}
			p, ok := ci.v.(*Value)
			if !ok {
				break
			}
			nx, ok := in.wraps[p]
			if !ok {
				break
			}
			cur = nx
		}
		return B(false), true
	case "errors.Unwrap":
		in.stub(name)
		if ci, ok := args[0].(Iface); ok {
			if p, ok := ci.v.(*Value); ok {
				if nx, ok := in.wraps[p]; ok {
					return nx, true
				}
			}
		}
		return Iface{}, true
	}
	return nil, false
}

func appendStr(dst Slice, s Str) Slice {
	for _, b := range s.b {
		dst = append(dst, b)
	}
	return dst
}

func strSlice(s Str) Slice {
	r := make(Slice, len(s.b))
	for i, b := range s.b {
		r[i] = b
	}
	return r
}

// indexOf: first index of sep in s or -1. One conjunction per candidate position; the explorer
// forks only on the position.
func (in *Interp) indexOf(s, sep Slice) *Term {
	if len(sep) == 0 {
		return C(64, 0)
	}
	for i := 0; i+len(sep) <= len(s); i++ {
		m := B(true)
		for j := range sep {
			m = And(m, Bin("=", s[i+j].(*Term), sep[j].(*Term)))
			if m.isFalse() {
				break
			}
		}
		if in.ex.decide(m) {
			return C(64, uint64(i))
		}
	}
	return C(64, ^uint64(0))
}

var pow10 = func() [20]uint64 {
	var p [20]uint64
	p[0] = 1
	for i := 1; i < 20; i++ {
		p[i] = p[i-1] * 10
	}
	return p
}()

// fmtInt: decimal text of a 64-bit integer. Symbolic values fork on sign and digit count.
func (in *Interp) fmtInt(v *Term, signed bool) Str {
	if v.w != 64 {
		if signed {
			v = Sext(v, 64)
		} else {
			v = Zext(v, 64)
		}
	}
	if v.isC() {
		if signed {
			return mkStr(strconv.FormatInt(v.sval(), 10))
		}
		return mkStr(strconv.FormatUint(v.c, 10))
	}
	key := v
	kind := "uint"
	if signed {
		kind = "int"
		// a value known to be non-negative has the same text under both conversions: share the
		// digits so that signed/unsigned formatting of one term yields identical byte terms
		if ok, dec := in.ex.foldByRange(Bin("bvsle", C(64, 0), v)); dec && ok {
			kind = "uint"
			signed = false
		}
	} else if ok, dec := in.ex.foldByRange(Bin("bvsle", C(64, 0), v)); !(dec && ok) {
		kind = "uint-wide" // may exceed MaxInt64: never shared with the signed rendering
	}
	for _, m := range in.fmtMemo {
		if m.kind == kind && m.key == key {
			return m.out
		}
	}
	e := in.ex
	neg := false
	mag := v
	if signed && e.decide(Bin("bvslt", v, C(64, 0))) {
		neg = true
		mag = Bin("bvsub", C(64, 0), v) // MinInt64 maps to itself: handled as unsigned magnitude
	}
	nd := 20
	for k := 1; k < 20; k++ {
		if e.decide(Bin("bvult", mag, C(64, pow10[k]))) {
			nd = k
			break
		}
	}
	var out []*Term
	if neg {
		out = append(out, C(8, '-'))
	}
	// digits are auxiliary variables defined by  mag == sum d_k * 10^k,  '0' <= d_k <= '9'
	// (exists and is unique for every mag with nd digits, so the path condition is not strengthened)
	// the defining equation is stated at the narrowest width that holds nd decimal digits
	// (mag < 10^nd is in the path condition, so truncation loses nothing)
	ew := 64
	if nd <= 4 {
		ew = 16
	} else if nd <= 9 {
		ew = 32
	}
	sum := C(ew, 0)
	digs := make([]*Term, nd)
	for k := nd - 1; k >= 0; k-- {
		d := e.freshAux(8, "dig")
		e.addPC(Bin("bvule", C(8, '0'), d))
		e.addPC(Bin("bvule", d, C(8, '9')))
		digs[k] = d
		sum = Bin("bvadd", sum, Bin("bvmul", Zext(Bin("bvsub", d, C(8, '0')), ew), C(ew, pow10[k])))
		out = append(out, d)
	}
	e.addPC(Bin("=", Trunc(mag, ew), sum))
	r := Str{b: out}
	in.fmtMemo = append(in.fmtMemo, fmtMemoEntry{kind, key, "", r})
	return r
}

func (in *Interp) numError() Value {
	in.errCount++
	st := zero(numErrorPtr.(*types.Pointer).Elem()).(Struct)
	if len(st) == 3 { // Func, Num, Err
		st[0] = mkStr("Atoi")
		st[1] = mkStr("?")
		st[2] = in.newErr("invalid syntax")
	}
	var cell Value = st
	return Iface{t: numErrorPtr, v: &cell}
}

// parseInt: strconv.Atoi / ParseUint(s,10,64) on a string of concrete length.
func (in *Interp) parseInt(s Str, signed bool) (*Term, bool) {
	if cs, ok := s.concrete(); ok {
		if signed {
			v, err := strconv.ParseInt(cs, 10, 64)
			return C(64, uint64(v)), err == nil
		}
		v, err := strconv.ParseUint(cs, 10, 64)
		return C(64, v), err == nil
	}
	kind := "uint"
	if signed {
		kind = "int"
	}
	for _, kd := range []string{kind, "uint", "uint-wide", "int"} {
		if k, ok := in.opaqueParse(kd, "", s); ok {
			if kd == "uint-wide" && signed {
				break // may not fit an int: fall through to the arithmetic model
			}
			if kd == "int" && !signed {
				break
			}
			return k, true // strconv round-trip identity on a text produced by the formatting model
		}
	}
	e := in.ex
	b := s.b
	if len(b) == 0 {
		return nil, false
	}
	neg := false
	if signed {
		if e.decide(Bin("=", b[0], C(8, '-'))) {
			neg = true
			b = b[1:]
		} else if e.decide(Bin("=", b[0], C(8, '+'))) {
			b = b[1:]
		}
		if len(b) == 0 {
			return nil, false
		}
	}
	all := B(true)
	for _, x := range b {
		all = And(all, And(Bin("bvule", C(8, '0'), x), Bin("bvule", x, C(8, '9'))))
	}
	if !e.decide(all) {
		return nil, false
	}
	// numerals longer than 18 digits: strip leading zeros (by decision), then decide the range
	// check of strconv (value out of range is an error) without wrapping 64-bit arithmetic.
	for len(b) > 18 && e.decide(Bin("=", b[0], C(8, '0'))) {
		b = b[1:]
	}
	if len(b) > 20 || (signed && len(b) == 20) {
		return nil, false
	}
	if len(b) == 20 {
		h := Bin("bvadd", Bin("bvmul", Bin("bvsub", b[0], C(8, '0')), C(8, 10)), Bin("bvsub", b[1], C(8, '0')))
		low := C(64, 0)
		for _, x := range b[2:] {
			low = Bin("bvadd", Bin("bvmul", low, C(64, 10)), Zext(Bin("bvsub", x, C(8, '0')), 64))
		}
		fits := Or(Bin("bvule", h, C(8, 17)), And(Bin("=", h, C(8, 18)), Bin("bvule", low, C(64, 446744073709551615))))
		if !e.decide(fits) {
			return nil, false
		}
	}
	if len(b) == 19 && signed {
		v := C(64, 0)
		for _, x := range b {
			v = Bin("bvadd", Bin("bvmul", v, C(64, 10)), Zext(Bin("bvsub", x, C(8, '0')), 64))
		}
		lim := uint64(1<<63 - 1)
		if neg {
			lim++
		}
		if !e.decide(Bin("bvule", v, C(64, lim))) {
			return nil, false
		}
	}
	acc := C(64, 0)
	for _, x := range b {
		acc = Bin("bvadd", Bin("bvmul", acc, C(64, 10)), Zext(Bin("bvsub", x, C(8, '0')), 64))
	}
	if neg {
		acc = Bin("bvsub", C(64, 0), acc)
	}
	return acc, true
}

// opaqueFormat: uninterpreted formatting function, memoised per (kind, key, layout). The text has a
// harness-chosen concrete length (default: len(layout) for times, 4 for floats), bytes are
// unconstrained except != SOH and, for the first byte, a printable non-space.
func (in *Interp) opaqueFormat(kind string, key *Term, layout string) Str {
	for _, m := range in.fmtMemo {
		if m.kind == kind && m.key == key && m.layout == layout {
			return m.out
		}
	}
	n := len(layout)
	if kind == "float" {
		n = in.ex.opaqueLen
		if n == 0 {
			n = 4
		}
	}
	out := Str{b: make([]*Term, n)}
	for i := range out.b {
		v := in.ex.freshAux(8, kind+"txt")
		in.ex.addPC(Not(Bin("=", v, C(8, 1))))
		out.b[i] = v
	}
	in.fmtMemo = append(in.fmtMemo, fmtMemoEntry{kind, key, layout, out})
	return out
}

// opaqueParse: inverse of opaqueFormat on texts that are term-identical to a formatted output.
func (in *Interp) opaqueParse(kind, layout string, s Str) (*Term, bool) {
	for _, m := range in.fmtMemo {
		if m.kind != kind || m.layout != layout || len(m.out.b) != len(s.b) {
			continue
		}
		same := true
		for i := range s.b {
			if s.b[i] != m.out.b[i] {
				same = false
				break
			}
		}
		if same {
			return m.key, true
		}
	}
	return nil, false
}

func (in *Interp) mkTime(ns *Term) Value {
	t := zero(timeType).(Struct)
	t[1] = ns
	return t
}

// timeNow: non-decreasing clock. Concrete by default (1ms steps from a fixed epoch); symbolic when
// the harness asked for it.
func (in *Interp) timeNow() Value {
	in.nowCount++
	if !in.clockSym {
		t := C(64, uint64(1_700_000_000_000_000_000+int64(in.nowCount)*1_000_000))
		in.nows = append(in.nows, t)
		return in.mkTime(t)
	}
	v := in.ex.freshAux(64, "now")
	if in.lastNow != nil {
		in.ex.addPC(Bin("bvsle", in.lastNow, v))
	} else {
		in.ex.addPC(Bin("bvsle", C(64, 0), v))
	}
	in.ex.addPC(Bin("bvslt", v, C(64, 1<<61)))
	in.lastNow = v
	in.nows = append(in.nows, v)
	return in.mkTime(v)
}

// sprintf for error texts: concrete best effort.
func (in *Interp) sprintf(f Str, args Slice) string {
	s, _ := in.sprintfStr(f, args).concrete()
	return s
}

func (in *Interp) sprintfStr(f Str, args Slice) Str {
	fs, ok := f.concrete()
	if !ok {
		return in.placeholder("<fmt>")
	}
	var out []*Term
	ai := 0
	for i := 0; i < len(fs); i++ {
		if fs[i] != '%' {
			out = append(out, C(8, uint64(fs[i])))
			continue
		}
		i++
		if i >= len(fs) {
			break
		}
		if fs[i] == '%' {
			out = append(out, C(8, '%'))
			continue
		}
		zeroPad := false
		width := 0
		if fs[i] == '0' {
			zeroPad = true
			i++
		}
		for i < len(fs) && fs[i] >= '0' && fs[i] <= '9' {
			width = width*10 + int(fs[i]-'0')
			i++
		}
		if i >= len(fs) {
			break
		}
		verb := fs[i]
		var piece Str
		if ai < len(args) {
			piece = in.fmtArg(verb, args[ai])
			ai++
		} else {
			piece = mkStr("%!" + string(verb) + "(MISSING)")
		}
		for k := len(piece.b); k < width; k++ {
			if zeroPad {
				out = append(out, C(8, '0'))
			} else {
				out = append(out, C(8, ' '))
			}
		}
		out = append(out, piece.b...)
	}
	return Str{b: out}
}

func (in *Interp) fmtArg(verb byte, a Value) Str {
	v := a
	if i, ok := a.(Iface); ok {
		v = i.v
		if i.t == nil {
			return mkStr("<nil>")
		}
		// error / Stringer values: call their Error()/String() method
		if _, isPtr := v.(*Value); isPtr {
			for _, mname := range []string{"Error", "String"} {
				ms := in.prog.MethodSets.MethodSet(i.t)
				for k := 0; k < ms.Len(); k++ {
					if sel := ms.At(k); sel.Obj().Name() == mname {
						if fn := in.prog.MethodValue(sel); fn != nil {
							if r, ok := in.call(fn, []Value{i.v}, nil).(Str); ok {
								return r
							}
						}
					}
				}
			}
			return in.placeholder("<obj>")
		}
	}
	switch x := v.(type) {
	case Str:
		return x
	case Slice:
		if verb == 's' {
			r := Str{b: make([]*Term, len(x))}
			for i, e := range x {
				t, ok := e.(*Term)
				if !ok || t.w != 8 {
					return in.placeholder("<slice>")
				}
				r.b[i] = t
			}
			return r
		}
		return in.placeholder("<slice>")
	case *Term:
		if x.w == 0 {
			if x.isC() {
				return mkStr(strconv.FormatBool(x.c == 1))
			}
			return in.placeholder("<bool>")
		}
		if verb == 'd' || verb == 'v' {
			if x.isC() {
				return mkStr(strconv.FormatInt(x.sval(), 10))
			}
			// symbolic integer: the decimal-digit model (signedness is not visible here; the
			// library formats int values only)
			return in.fmtInt(x, true)
		}
	}
	return in.placeholder("<" + string(verb) + ">")
}

// placeholder: text standing for a value the formatting model does not render. Every use gets a
// distinct text, so two such values never compare equal by accident.
func (in *Interp) placeholder(kind string) Str {
	in.phN++
	return mkStr(kind + "#" + strconv.Itoa(in.phN))
}

// trimSpaceBytes: bytes.TrimSpace over symbolic bytes - ASCII white space, forks on the bytes at both
// ends (same bound as strings.TrimSpace: non-ASCII contents end the path as assumed away).
func (in *Interp) trimSpaceBytes(sl Slice) Value {
	isSp := func(v Value) *Term {
		b := v.(*Term)
		r := B(false)
		for _, c := range " \t\n\v\f\r" {
			r = Or(r, Bin("=", b, C(8, uint64(c))))
		}
		return r
	}
	lo, hi := 0, len(sl)
	for lo < hi && in.ex.decide(isSp(sl[lo])) {
		lo++
	}
	for hi > lo && in.ex.decide(isSp(sl[hi-1])) {
		hi--
	}
	for _, v := range sl[lo:hi] {
		if b := v.(*Term); !b.isC() {
			if in.ex.decide(Bin("bvule", C(8, 0x80), b)) {
				panic(pathEnd{"assume-false"})
			}
		}
	}
	if lo == hi {
		return Slice(nil)
	}
	return sl[lo:hi:hi]
}

var zzverifPath = "github.com/b2broker/simplefix-go/zzverif"

func (in *Interp) harnessAPI(fn *ssa.Function, args []Value) (Value, bool) {
	e := in.ex
	switch fn.Name() {
	case "Param":
		i := in.concrete(args[0].(*Term), "Param index")
		if i < 0 || i >= len(e.params) {
			return C(64, 0), true
		}
		return C(64, uint64(int64(e.params[i]))), true
	case "NParams":
		return C(64, uint64(len(e.params))), true
	case "Byte":
		return e.fresh(8, "byte"), true
	case "Bool":
		return e.fresh(0, "bool"), true
	case "Int":
		return e.fresh(64, "int"), true
	case "Uint64":
		return e.fresh(64, "uint64"), true
	case "Float":
		return Flt{bits: e.fresh(64, "float")}, true
	case "TimeMs":
		return in.mkTime(e.fresh(64, "timems")), true
	case "Assume":
		e.assume(args[0].(*Term))
		return nil, true
	case "Assert":
		msg, _ := args[1].(Str).concrete()
		e.assert(args[0].(*Term), msg)
		return nil, true
	case "And":
		return And(args[0].(*Term), args[1].(*Term)), true
	case "Or":
		return Or(args[0].(*Term), args[1].(*Term)), true
	case "Not":
		return Not(args[0].(*Term)), true
	case "Implies":
		return Implies(args[0].(*Term), args[1].(*Term)), true
	case "EqBytes":
		a, b := args[0].(Slice), args[1].(Slice)
		if len(a) != len(b) {
			return B(false), true
		}
		r := B(true)
		for i := range a {
			r = And(r, Bin("=", a[i].(*Term), b[i].(*Term)))
		}
		return r, true
	case "EqStr":
		return in.strEq(args[0].(Str), args[1].(Str)), true
	case "IteInt":
		return Ite(args[0].(*Term), args[1].(*Term), args[2].(*Term)), true
	case "IteByte":
		return Ite(args[0].(*Term), args[1].(*Term), args[2].(*Term)), true
	case "Reach":
		tag, _ := args[0].(Str).concrete()
		e.res.Reached[tag]++
		return nil, true
	case "Note":
		k, _ := args[0].(Str).concrete()
		e.notes = append(e.notes, k)
		return nil, true
	case "Class":
		k, _ := args[0].(Str).concrete()
		e.class = k
		return nil, true
	case "Concrete":
		return C(64, uint64(int64(in.concrete(args[0].(*Term), "Concrete")))), true
	case "Panics":
		return in.panics(args[0]), true
	case "Observe":
		tag, _ := args[0].(Str).concrete()
		if b, ok := sliceConcrete(args[1].(Slice)); ok {
			in.observed = append(in.observed, observation{tag, hex.EncodeToString(b)})
		}
		return nil, true
	case "Symbolic":
		return B(!e.concMode), true
	case "Yield":
		in.yieldAll()
		return nil, true
	case "ClockSymbolic":
		in.clockSym = args[0].(*Term).isTrue()
		return nil, true
	case "LastNow":
		if in.lastNow == nil {
			return C(64, 0), true
		}
		return in.lastNow, true
	case "NowCount":
		return C(64, uint64(in.nowCount)), true
	case "TickBudget":
		in.tickBudget = in.concrete(args[0].(*Term), "TickBudget")
		return nil, true
	case "OpaqueLen":
		e.opaqueLen = in.concrete(args[0].(*Term), "OpaqueLen")
		return nil, true
	case "Goroutines":
		n := 0
		for _, g := range in.gs[1:] {
			if !g.done {
				n++
			}
		}
		return C(64, uint64(n)), true
	case "Spawned":
		return C(64, uint64(len(in.gs)-1)), true
	case "AfterFuncs":
		return C(64, uint64(len(in.afterFuncs))), true
	case "AfterFuncDelay":
		i := in.concrete(args[0].(*Term), "AfterFuncDelay")
		return in.afterFuncs[i].d, true
	case "AfterFuncStopped":
		i := in.concrete(args[0].(*Term), "AfterFuncStopped")
		return B(in.afterFuncs[i].stopped), true
	case "AfterFuncFire":
		i := in.concrete(args[0].(*Term), "AfterFuncFire")
		af := in.afterFuncs[i]
		if !af.stopped && !af.fired {
			af.fired = true
			in.invokeVal(af.f, nil)
		}
		return nil, true
	case "ExploreSchedules":
		in.schedExp = args[0].(*Term).isTrue()
		return nil, true
	case "PickRotation":
		in.pickRot = in.concrete(args[0].(*Term), "PickRotation")
		return nil, true
	case "CoarseSchedules":
		in.schedCoarse = args[0].(*Term).isTrue()
		return nil, true
	case "PreemptionBound":
		in.preemptBound = in.concrete(args[0].(*Term), "PreemptionBound")
		return nil, true
	case "Go":
		in.spawn(args[0], nil, "harness")
		return nil, true
	case "WaitAll":
		in.block(func() bool {
			for _, g := range in.gs[1:] {
				if !g.done {
					return false
				}
			}
			return true
		}, "zzverif.WaitAll")
		return nil, true
	case "WaitAll2":
		parked := in.concrete(args[0].(*Term), "WaitAll2")
		in.block(func() bool {
			for i, g := range in.gs[1:] {
				if i < parked {
					if !g.done && (g.waiting == nil || g.waiting()) {
						return false // a parked goroutine is still runnable
					}
					continue
				}
				if !g.done {
					return false
				}
			}
			return true
		}, "zzverif.WaitAll2")
		return nil, true
	case "Role":
		r, _ := args[0].(Str).concrete()
		in.cur.role = r
		return nil, true
	case "ArmedWaits":
		return C(64, uint64(len(in.armed))), true
	case "ArmInstant":
		return in.armed[in.concrete(args[0].(*Term), "ArmInstant")].at, true
	case "ArmDuration":
		return in.armed[in.concrete(args[0].(*Term), "ArmDuration")].d, true
	case "ArmIsTicker":
		return B(in.armed[in.concrete(args[0].(*Term), "ArmIsTicker")].kind == "ticker"), true
	case "TimerStub":
		in.timerStub = args[0].(*Term).isTrue()
		return nil, true
	case "Timers":
		return C(64, uint64(len(in.timers))), true
	case "TimerField":
		i := in.concrete(args[0].(*Term), "TimerField")
		name, _ := args[1].(Str).concrete()
		return in.timerField(i, name), true
	case "FireTimer":
		i := in.concrete(args[0].(*Term), "FireTimer")
		in.timerFired[i]++
		return nil, true
	case "TimerWaiting":
		i := in.concrete(args[0].(*Term), "TimerWaiting")
		return B(in.timerWaiting[i] > 0), true
	case "Tick":
		in.tickBudget++
		return nil, true
	case "NowAt":
		i := in.concrete(args[0].(*Term), "NowAt")
		if i < 1 || i > len(in.nows) {
			return C(64, 0), true
		}
		return in.nows[i-1], true
	case "Done":
		i := in.concrete(args[0].(*Term), "Done")
		if i+1 >= len(in.gs) {
			return B(false), true
		}
		return B(in.gs[i+1].done), true
	case "TimeOf":
		// instant (ns) carried by a time.Time
		return args[0].(Struct)[1], true
	}
	return nil, false
}

// panics runs f and reports whether it panicked (Go panic), swallowing the panic.
func (in *Interp) panics(f Value) (res Value) {
	res = B(false)
	func() {
		defer func() {
			if r := recover(); r != nil {
				if gp, ok := r.(goPanic); ok {
					in.ex.notes = append(in.ex.notes, "caught: "+gp.msg)
					res = B(true)
					return
				}
				panic(r)
			}
		}()
		in.invokeVal(f, nil)
	}()
	return
}

func (in *Interp) timerIndex(p *Value) int {
	for i, t := range in.timers {
		if t == p {
			return i
		}
	}
	in.timers = append(in.timers, p)
	in.timerFired = append(in.timerFired, 0)
	in.timerWaiting = append(in.timerWaiting, 0)
	return len(in.timers) - 1
}

// timerField reads a field of the i-th utils.Timer by name (durations and instants as int64 ns).
func (in *Interp) timerField(i int, name string) Value {
	p := in.timers[i]
	st := (*p).(Struct)
	tt := in.timerType.Underlying().(*types.Struct)
	for k := 0; k < tt.NumFields(); k++ {
		if tt.Field(k).Name() == name {
			v := st[k]
			if s, ok := v.(Struct); ok { // time.Time
				return s[1]
			}
			return v
		}
	}
	panic(engineError{"no Timer field " + name})
}

// toValidUTF8Sym: strings.ToValidUTF8 over bytes that may be symbolic (self-tested against the real
// function); the second result tells whether the input was valid UTF-8 on this path.
func (in *Interp) toValidUTF8Sym(b []*Term, repl []*Term) ([]*Term, bool) {
	var out []*Term
	valid, inRun := true, false
	for i := 0; i < len(b); {
		if in.ex.decide(Bin("bvult", b[i], C(8, 0x80))) {
			out = append(out, b[i])
			i, inRun = i+1, false
			continue
		}
		_, sz := in.decodeRuneSym(b[i:])
		if sz == 1 {
			valid = false
			if !inRun {
				out = append(out, repl...)
			}
			i, inRun = i+1, true
			continue
		}
		out = append(out, b[i:i+sz]...)
		i, inRun = i+sz, false
	}
	return out, valid
}
