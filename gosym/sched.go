package main

// Interpreted goroutines (baton passing: exactly one host goroutine runs at any time),
// channels, select, contexts, mutexes.

import (
	"fmt"
	"go/types"
	"os"
	"strings"
	"sync"

	"golang.org/x/tools/go/ssa"
)

type G struct {
	id        int
	name      string
	wake      chan struct{}
	started   bool
	done      bool
	waiting   func() bool // nil => runnable
	what      string
	fnv       Value
	args      []Value
	held      []*mutexState // locks currently held (lockset)
	announced []*Chan       // unbuffered channels this goroutine is parked receiving on
	committed *Chan         // unbuffered channel on which a sender has handed it a value
	spin      int
	role      string
}

type Chan struct {
	buf     []Value
	cap     int
	closed  bool
	waiters []*G   // goroutines parked in a receive (or a select with a receive case) on this channel
	ctx     *Ctx   // Done() channel of a context
	tick    *Value // ticker channel (harness/stub driven)
	nrecv   int
}

type Ctx struct {
	parent    *Ctx
	cancelled bool
	done      *Chan
}

type nativeObj interface {
	method(in *Interp, name string, args []Value) Value
}

var ctxNamedType types.Type // context.Context
var errCanceled Value       // context.Canceled (Iface)
var hostWG sync.WaitGroup

func (c *Ctx) isCancelled() bool {
	for x := c; x != nil; x = x.parent {
		if x.cancelled {
			return true
		}
	}
	return false
}

func (c *Ctx) method(in *Interp, name string, args []Value) Value {
	switch name {
	case "Done":
		return c.done
	case "Err":
		if c.isCancelled() {
			return errCanceled
		}
		return Iface{}
	case "Value":
		return Iface{}
	case "Deadline":
		return Tuple{zero(timeType), B(false)}
	}
	panic(engineError{"context method " + name})
}

func newCtx(parent *Ctx) *Ctx {
	c := &Ctx{parent: parent}
	c.done = &Chan{ctx: c}
	return c
}

// ---- goroutine switching ----

func (in *Interp) spawn(fnv Value, args []Value, where string) {
	g := &G{id: len(in.gs), name: where, wake: make(chan struct{}, 1), fnv: fnv, args: args}
	if c, ok := fnv.(*Closure); ok && c != nil {
		g.name = c.fn.String() + "@" + where
		if in.acc != nil && isModulePath(pkgPathOf2(c.fn)) && !strings.Contains(c.fn.String(), ".H_") {
			g.role = "goroutine " + c.fn.Name() + " of " + parentName(c.fn)
		}
	}
	in.gs = append(in.gs, g)
	in.schedPoint("go")
}

func (g *G) runnable() bool {
	if g.done {
		return false
	}
	return g.waiting == nil || g.waiting()
}

// switchTo hands the baton to next and parks the current goroutine until it is woken again.
func (in *Interp) switchTo(next *G) {
	me := in.cur
	if next == me {
		return
	}
	in.cur = next
	if !next.started {
		next.started = true
		hostWG.Add(1)
		go in.gMain(next)
	} else {
		next.wake <- struct{}{}
	}
	in.park(me)
}

func (in *Interp) park(me *G) {
	<-me.wake
	if me.id == 0 {
		if in.pending != nil {
			p := in.pending
			in.pending = nil
			panic(p)
		}
		if in.deadlock != "" {
			d := in.deadlock
			in.deadlock = ""
			panic(pathEnd{"deadlock: " + d})
		}
	} else if in.killed {
		panic(killG{})
	}
}

func (in *Interp) gMain(g *G) {
	defer hostWG.Done()
	defer func() {
		r := recover()
		g.done = true
		if _, ok := r.(killG); ok {
			return
		}
		if r != nil {
			in.pending = r
			in.wakeMain()
			return
		}
		// finished normally: pass the baton on
		if in.killed {
			return
		}
		next := in.pickNext(g)
		if next == nil {
			in.deadlock = "all goroutines blocked; main waits for: " + in.gs[0].what
			in.wakeMain()
			return
		}
		in.cur = next
		if !next.started {
			next.started = true
			hostWG.Add(1)
			go in.gMain(next)
		} else {
			next.wake <- struct{}{}
		}
	}()
	in.invokeVal(g.fnv, g.args)
}

func (in *Interp) wakeMain() {
	in.cur = in.gs[0]
	in.gs[0].wake <- struct{}{}
}

// pick the next goroutine to run (other than `not`). Deterministic: main first, then by id.
func (in *Interp) pick(not *G) *G {
	for _, g := range in.gs {
		if g != not && g.runnable() {
			return g
		}
	}
	return nil
}

// block parks the current goroutine until ready() holds.
func (in *Interp) block(ready func() bool, what string) {
	for !ready() {
		g := in.cur
		g.spin = 0
		g.waiting = ready
		g.what = what
		next := in.pickNext(g)
		if next == nil {
			g.waiting = nil
			if g.id == 0 {
				panic(pathEnd{"deadlock: " + what})
			}
			in.deadlock = what
			in.switchTo(in.gs[0])
			panic(killG{})
		}
		in.switchTo(next)
		g.waiting = nil
	}
}

// yield lets every other goroutine run until all of them are blocked or done.
func (in *Interp) yieldAll() {
	g := in.cur
	for rounds := 0; rounds < 10000; rounds++ {
		next := in.pick(g)
		if next == nil {
			return
		}
		in.switchTo(next)
	}
	panic(pathEnd{"UNWIND: yieldAll did not quiesce"})
}

// schedPoint: in schedule-exploration mode the scheduler may preempt the running goroutine here.
// Preemption bounding (CHESS): at most in.preemptBound switches away from a goroutine that could
// have continued; switches at blocking points are free.
func (in *Interp) schedPoint(what string) {
	if !in.schedExp || in.preempts >= in.preemptBound {
		return
	}
	if in.schedCoarse {
		if what == "lock" || what == "unlock" || what == "atomic" {
			return // coarse exploration: only channel, select, cancel and go statements are switch points
		}
		// a program point reached again and again by the same goroutine (a polling loop) is a switch
		// point only the first two times
		if in.pointSeen == nil {
			in.pointSeen = map[pointKey]int{}
		}
		k := pointKey{in.cur.id, in.curIns}
		in.pointSeen[k]++
		if in.pointSeen[k] > 2 {
			return
		}
	}
	var cands []*G
	cands = append(cands, in.cur)
	for _, g := range in.gs {
		if g != in.cur && g.runnable() {
			cands = append(cands, g)
		}
	}
	if len(cands) <= 1 {
		return
	}
	if os.Getenv("GOSYM_DEBUG_SCHED") != "" && in.ex.pathNo == 0 {
		fmt.Fprintf(os.Stderr, "SCHEDPOINT g%d %s %s cands=%d\n", in.cur.id, what, in.pos(in.curIns), len(cands))
	}
	k := in.ex.choose(len(cands), "sched:"+what)
	if k != 0 {
		in.preempts++
		in.switchTo(cands[k])
	}
}

// pickNext chooses the goroutine to run when the current one blocks or ends.
func (in *Interp) pickNext(not *G) *G {
	if !in.schedExp {
		return in.pick(not)
	}
	if in.schedCoarse {
		// coarse mode: no branching at blocking points; a rotating deterministic choice instead
		// (the rotation offset is a harness parameter, so different jobs use different orders)
		n := len(in.gs)
		for k := 0; k < n; k++ {
			g := in.gs[(k+in.pickRot)%n]
			if g != not && g.runnable() {
				return g
			}
		}
		return nil
	}
	var cands []*G
	for _, g := range in.gs {
		if g != not && g.runnable() {
			cands = append(cands, g)
		}
	}
	if len(cands) == 0 {
		return nil
	}
	if len(cands) == 1 {
		return cands[0]
	}
	return cands[in.ex.choose(len(cands), "sched:next")]
}

// killAll terminates all non-main host goroutines at the end of a path.
func (in *Interp) killAll() {
	in.killed = true
	for _, g := range in.gs[1:] {
		if g.started && !g.done {
			g.wake <- struct{}{}
		}
	}
	hostWG.Wait()
}

// ---- channels ----

func (in *Interp) chanRecvReady(c *Chan) bool {
	if c == nil {
		return false
	}
	if c.ctx != nil {
		return c.ctx.isCancelled()
	}
	if c.tick != nil {
		return in.tickBudget != 0
	}
	return len(c.buf) > 0 || c.closed
}

func (in *Interp) chanSendReady(c *Chan) bool {
	if c == nil {
		return false
	}
	if c.closed {
		return true // will panic
	}
	if c.cap == 0 {
		// rendezvous: a send can proceed only if a receiver is parked on the channel and no
		// value is already in flight to it
		return len(c.buf) == 0 && len(c.waiters) > 0
	}
	return len(c.buf) < c.cap
}

func (c *Chan) addWaiter(g *G) {
	for _, w := range c.waiters {
		if w == g {
			return
		}
	}
	c.waiters = append(c.waiters, g)
}

func (c *Chan) dropWaiter(g *G) {
	for i, w := range c.waiters {
		if w == g {
			c.waiters = append(c.waiters[:i:i], c.waiters[i+1:]...)
			return
		}
	}
}

func (in *Interp) chanRecv(c *Chan, where string) (Value, bool) {
	in.schedPoint("recv")
	if c != nil && c.cap == 0 && c.ctx == nil && c.tick == nil && !in.chanRecvReady(c) {
		g := in.cur
		c.addWaiter(g)
		g.announced = []*Chan{c}
		in.block(func() bool { return in.chanRecvReady(c) }, "chan receive at "+where)
		in.retract(g)
		g.committed = nil
		return in.takeFrom(c)
	}
	in.block(func() bool { return in.chanRecvReady(c) }, "chan receive at "+where)
	return in.takeFrom(c)
}

// retract removes every receive announcement of g.
func (in *Interp) retract(g *G) {
	for _, c := range g.announced {
		c.dropWaiter(g)
	}
	g.announced = nil
}

func (in *Interp) takeFrom(c *Chan) (Value, bool) {
	if c.ctx != nil {
		return nil, false
	}
	if c.tick != nil {
		if in.tickBudget > 0 {
			in.tickBudget--
		}
		c.nrecv++
		return in.timeNow(), true
	}
	if len(c.buf) > 0 {
		v := c.buf[0]
		c.buf = c.buf[1:]
		return v, true
	}
	return nil, false // closed
}

func (in *Interp) chanSend(c *Chan, v Value, where string) {
	in.schedPoint("send")
	in.block(func() bool { return in.chanSendReady(c) }, "chan send at "+where)
	in.putInto(c, v, where)
}

func (in *Interp) putInto(c *Chan, v Value, where string) {
	if c.closed {
		panic(goPanic{"send on closed channel at " + where})
	}
	c.buf = append(c.buf, copyVal(v))
	if c.cap == 0 && len(c.waiters) > 0 {
		// the value is handed to the first parked receiver: it is committed to this channel and
		// no longer available to senders on the other channels of its select
		w := c.waiters[0]
		in.retract(w)
		w.committed = c
	}
}

// fairness: a goroutine that keeps taking immediately-ready channel operations (e.g. spinning on a
// closed channel) is descheduled now and then so that the others make progress, as under a
// preemptive scheduler.
func (in *Interp) spinYield() {
	g := in.cur
	g.spin++
	if g.spin < 64 {
		return
	}
	g.spin = 0
	for k := 1; k <= len(in.gs); k++ {
		o := in.gs[(g.id+k)%len(in.gs)]
		if o != g && o.runnable() {
			in.switchTo(o)
			return
		}
	}
}

func (in *Interp) selectStmt(fr *frame, x *ssa.Select) Value {
	in.schedPoint("select")
	in.spinYield()
	type cs struct {
		ch  *Chan
		dir types.ChanDir
		val Value
	}
	cases := make([]cs, len(x.States))
	for i, st := range x.States {
		ch, _ := in.get(fr, st.Chan).(*Chan)
		cases[i] = cs{ch: ch, dir: st.Dir}
		if st.Dir == types.SendOnly {
			cases[i].val = in.get(fr, st.Send)
		}
	}
	ready := func() []int {
		var r []int
		for i, c := range cases {
			if c.dir == types.SendOnly {
				if in.chanSendReady(c.ch) {
					r = append(r, i)
				}
			} else if in.chanRecvReady(c.ch) {
				r = append(r, i)
			}
		}
		return r
	}
	mkResult := func(idx int, recvOK bool, recvVal Value) Value {
		r := Tuple{C(64, uint64(int64(idx))), B(recvOK)}
		for i, st := range x.States {
			if st.Dir == types.RecvOnly {
				z := zero(st.Chan.Type().Underlying().(*types.Chan).Elem())
				if i == idx && recvVal != nil {
					z = recvVal
				}
				r = append(r, z)
			}
		}
		return r
	}
	rs := ready()
	if len(rs) == 0 {
		if !x.Blocking {
			return mkResult(-1, false, nil)
		}
		g := in.cur
		for _, c := range cases {
			if c.dir != types.SendOnly && c.ch != nil && c.ch.cap == 0 && c.ch.ctx == nil && c.ch.tick == nil {
				c.ch.addWaiter(g)
				g.announced = append(g.announced, c.ch)
			}
		}
		in.block(func() bool { return len(ready()) > 0 }, "select at "+in.pos(x))
		in.retract(g)
		rs = ready()
		if g.committed != nil {
			// a sender handed us a value on that channel: that case must be taken
			for _, i := range rs {
				if cases[i].ch == g.committed && cases[i].dir != types.SendOnly {
					rs = []int{i}
					break
				}
			}
			g.committed = nil
		}
	}
	k := rs[0]
	if len(rs) > 1 && in.schedExp {
		if in.pointSeen == nil {
			in.pointSeen = map[pointKey]int{}
		}
		pk := pointKey{-1 - in.cur.id, x}
		in.pointSeen[pk]++
		if n := in.pointSeen[pk]; n <= 2 || !in.schedCoarse {
			k = rs[in.ex.choose(len(rs), "select")]
		} else {
			k = rs[n%len(rs)] // a polling loop: rotate deterministically instead of branching again
		}
	}
	c := cases[k]
	if c.dir == types.SendOnly {
		in.putInto(c.ch, c.val, in.pos(x))
		return mkResult(k, false, nil)
	}
	v, ok := in.takeFrom(c.ch)
	return mkResult(k, ok, v)
}

// ---- mutexes ----

type mutexState struct {
	id      int
	locked  bool
	readers int
	owner   *G
	name    string
}

func (in *Interp) mutexOf(p *Value) *mutexState {
	m := in.mutexes[p]
	if m == nil {
		m = &mutexState{id: len(in.mutexes)}
		in.mutexes[p] = m
	}
	return m
}

func (in *Interp) lock(p *Value, write bool, where string) {
	if p == nil {
		panic(goPanic{"nil pointer dereference (mutex) at " + where})
	}
	m := in.mutexOf(p)
	in.schedPoint("lock")
	if write {
		in.block(func() bool { return !m.locked && m.readers == 0 }, "Mutex.Lock "+where)
		m.locked = true
		m.owner = in.cur
	} else {
		in.block(func() bool { return !m.locked }, "RWMutex.RLock "+where)
		m.readers++
	}
	in.cur.held = append(in.cur.held, m)
}

func (in *Interp) unlock(p *Value, write bool, where string) {
	m := in.mutexOf(p)
	if write {
		if !m.locked {
			panic(goPanic{"sync: unlock of unlocked mutex " + where})
		}
		m.locked = false
		m.owner = nil
	} else {
		if m.readers == 0 {
			panic(goPanic{"sync: RUnlock of unlocked RWMutex " + where})
		}
		m.readers--
	}
	// drop from the lockset of whichever goroutine holds it (normally the current one)
	for _, g := range in.gs {
		for i := len(g.held) - 1; i >= 0; i-- {
			if g.held[i] == m {
				g.held = append(g.held[:i:i], g.held[i+1:]...)
				goto done
			}
		}
	}
done:
	in.schedPoint("unlock")
}

type afterFunc struct {
	d       *Term
	f       Value
	stopped bool
	fired   bool
	ptr     *Value
}

func (in *Interp) describeGs() string {
	s := ""
	for _, g := range in.gs {
		st := "runnable"
		if g.done {
			st = "done"
		} else if g.waiting != nil {
			st = "blocked:" + g.what
		} else if !g.started {
			st = "not started"
		}
		s += fmt.Sprintf("[g%d %s %s] ", g.id, g.name, st)
	}
	return s
}

func pkgPathOf2(f *ssa.Function) string {
	for f.Parent() != nil {
		f = f.Parent()
	}
	if f.Pkg == nil {
		return ""
	}
	return f.Pkg.Pkg.Path()
}

func parentName(f *ssa.Function) string {
	if f.Parent() != nil {
		return f.Parent().Name()
	}
	return f.Name()
}
