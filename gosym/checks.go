package main

// The registered checks: which harness jobs decide which property, at which bounds.

const encPkg = modPath + "/fix/encoding"
const rootPkg = modPath
const sessPkg = modPath + "/session"

var commonAssumptions = []string{
	"go/ssa (x/tools v0.29.0) builds faithful SSA for the current working tree; the interpreter implements the 40 instruction kinds the library uses (validated on every run by differential engine-vs-native executions and by native replay of every counterexample)",
	"environment models (listed under environment_models_used) behave as the Go standard library: strconv Itoa/Atoi/FormatUint/ParseUint digit models (validated against strconv by `gosym selftest` in setup), bytes.Index/Equal/Join, fmt.Sprintf for %s/%d/%03s, errors as opaque non-nil values",
	"float64 and time.Time values are opaque: FormatFloat/Time.Format are uninterpreted injective functions with ParseFloat/time.Parse as inverses on their images (value-level float/time semantics are trusted to the standard library)",
	"SMT solver soundness (z3 5.1.0; a sample of queries is re-decided by z3 4.8.12 and cvc5 1.0.3)",
	"all claims are bounded: see coverage.bounds; nothing outside the bounds is claimed",
}

func J(pkg, h string, params ...int) Job {
	j := Job{Pkg: pkg, Harness: h, Params: params}
	if pkg == encPkg {
		j.MaxSteps = 500_000 // codec paths need a few thousand instructions; this is the unwinding bound
	}
	return j
}

// population masks: patterns over the first 30 leaf slots
func patternMasks(quick bool) []int {
	all := 1<<30 - 1
	m := []int{all, 0x15555555, 0x2AAAAAAA, 1, 2, 4, all &^ 1, all &^ 2, all &^ 4}
	if !quick {
		for b := 3; b < 10; b++ {
			m = append(m, 1<<uint(b), all&^(1<<uint(b)))
		}
		m = append(m, 0x0F0F0F0F, 0x33333333, 0x1249249, 0x36DB6DB6, 0)
	}
	return m
}

// small templates for which every subset of leaves is enumerated: template -> number of leaf slots
var smallTemplates = map[int]int{0: 0, 1: 3, 3: 4, 9: 4, 10: 2}

// group templates: template -> nesting depth
var groupTemplates = map[int]int{4: 1, 5: 2, 6: 1, 7: 1, 8: 1, 11: 1, 12: 2, 13: 3}

func cntCombos(depth int, quick bool) [][3]int {
	var r [][3]int
	switch depth {
	case 1:
		for _, c := range []int{0, 1, 2, 3} {
			r = append(r, [3]int{c, 0, 0})
		}
	case 2:
		r = [][3]int{{0, 0, 0}, {1, 1, 0}, {2, 1, 0}, {1, 2, 0}, {2, 2, 0}}
		if !quick {
			r = append(r, [3]int{3, 2, 0}, [3]int{2, 3, 0}, [3]int{1, 0, 0}, [3]int{2, 0, 0})
		}
	case 3:
		r = [][3]int{{1, 1, 1}, {2, 1, 2}, {1, 2, 1}}
		if !quick {
			r = append(r, [3]int{2, 2, 2}, [3]int{1, 1, 0}, [3]int{2, 2, 1})
		}
	}
	return r
}

// shapeJobs enumerates [template, mask, cnt0, cnt1, cnt2, lenSel, route] parameter vectors.
func shapeJobs(pkg, h string, tier string, routes []int, lenSels []int) []Job {
	quick := tier == "quick"
	var jobs []Job
	add := func(t, mask int, c [3]int) {
		for _, ls := range lenSels {
			for _, rt := range routes {
				jobs = append(jobs, J(pkg, h, t, mask, c[0], c[1], c[2], ls, rt))
			}
		}
	}
	for t, n := range smallTemplates {
		for mask := 0; mask < 1<<uint(n); mask++ {
			add(t, mask, [3]int{})
		}
	}
	// template 2 (ten leaves of every type)
	if quick {
		for _, m := range patternMasks(true) {
			add(2, m&1023, [3]int{})
		}
	} else {
		for mask := 0; mask < 1024; mask++ {
			add(2, mask, [3]int{})
		}
	}
	for t, d := range groupTemplates {
		for _, c := range cntCombos(d, quick) {
			for _, m := range patternMasks(quick) {
				add(t, m, c)
			}
		}
	}
	return jobs
}

func lenSels(tier string) []int {
	if tier == "quick" {
		return []int{1, 2, 9}
	}
	return []int{0, 1, 2, 3, 4, 5, 9}
}

var extraSpecs []func(map[string]*CheckSpec)

func checkSpecs() map[string]*CheckSpec {
	m := map[string]*CheckSpec{}
	defer func() {
		for _, f := range extraSpecs {
			f(m)
		}
	}()
	m["C01"] = &CheckSpec{
		ID: "C01",
		Jobs: func(tier string) []Job {
			jobs := shapeJobs(encPkg, "H_C01_frame", tier, []int{0, 1, 2}, lenSels(tier))
			// symbolic framing tags / BeginString / MsgType
			for _, p := range [][]int{{1, 1, 2, 2, 7, 1, 2}, {2, 1, 2, 2, 3, 2, 1}, {1, 2, 3, 3, 1, 1, 3}, {3, 3, 1, 1, 2, 2, 2}} {
				jobs = append(jobs, J(encPkg, "H_C01_tags", p...))
			}
			// group entry counts around 9/10 (thorough: 99/100) with blank entries
			for _, c := range [][]int{{9, 0, 0}, {10, 0, 0}, {10, 3, 4}, {10, 0, 1}, {10, 9, 10}, {11, 4, 6}, {11, 5, 6}, {12, 2, 5}} {
				for nested := 0; nested <= 1; nested++ {
					jobs = append(jobs, J(encPkg, "H_C01_count", c[0], c[1], c[2], nested))
				}
			}
			if tier != "quick" {
				for _, c := range [][]int{{100, 0, 0}, {100, 50, 51}, {101, 7, 9}, {100, 0, 91}} {
					jobs = append(jobs, J(encPkg, "H_C01_count", c[0], c[1], c[2], 0))
				}
			}
			// ballast: value lengths that put BodyLength on 9/10, 99/100, 999/1000 (35=0|58=<v>| => 5+3+len+1)
			for _, bl := range []int{8, 9, 10, 11, 98, 99, 100, 101, 998, 999, 1000, 1001} {
				n := bl - 9
				if n < 1 {
					continue
				}
				jobs = append(jobs, J(encPkg, "H_C01_ballast", n, min(n, 3)))
			}
			jobs = append(jobs, J(encPkg, "H_C01_lowsum", 0), J(encPkg, "H_C01_lowsum", 1))
			all := 1<<30 - 1
			for _, sh := range [][]int{{1, 7, 0, 0, 0}, {2, 1023, 0, 0, 0}, {3, 15, 0, 0, 0}, {4, all, 2, 0, 0}, {5, all, 2, 1, 0}, {8, all, 1, 0, 0}, {9, 15, 0, 0, 0}, {10, 3, 0, 0, 0}} {
				for change := 0; change <= 2; change++ {
					for _, ls := range []int{1, 3} {
						jobs = append(jobs, J(encPkg, "H_C01_reuse", sh[0], sh[1], sh[2], sh[3], sh[4], ls, 0, change))
					}
				}
			}
			return jobs
		},
		Explanation: "Bounded symbolic execution of the real SSA of fix.(*Message).ToBytes and everything it calls, over a catalogue of 14 template shapes (nesting of fields, components, repeating groups up to depth 3, empty/non-empty header, body, trailer), every population mask listed in rule, three population routes, with all value bytes symbolic. The assertion compares the output with an independent oracle written in the harness (prefix/suffix layout, decimal of the measured body length, mod-256 byte sum as three digits); z3 decides it for all values at once.",
		Rule:        "case = (template, population mask, group entry counts, value-length selector, population route) x path; non-trivial = the path condition contains at least one symbolic constraint. Small templates: every subset of leaves; others: pattern masks. Additional jobs: symbolic framing tag digits/BeginString/MsgType, ballast lengths crossing 9/10, 99/100, 999/1000, and reachability witnesses for checksums < 100 and < 10.",
		Bounds: map[string]string{
			"quick":    "14 templates, nesting depth <= 3, <= 3 entries per group, value length 1..3 bytes (ballast up to 992), Int/Uint one sign/digit-count class per job (<= 5 digits) plus 64-bit extremes, framing tags 1..3 digits",
			"thorough": "as quick with value length 1..6, all 1024 populations of the all-types template, more entry-count combinations and masks",
		},
		Assumptions:  commonAssumptions,
		Outside:      "templates outside the catalogue; values longer than the stated lengths; a header that was never set (nil *Component panics in ToBytes - generated types always set it)",
		Differential: 8,
	}
	m["C17"] = &CheckSpec{
		ID: "C17",
		Jobs: func(tier string) []Job {
			jobs := shapeJobs(encPkg, "H_C17_fields", tier, []int{0, 1, 2}, lenSels(tier))
			for _, t := range []int{1, 2, 3, 9} {
				for _, m := range []int{1, 3, 1023} {
					jobs = append(jobs, J(encPkg, "H_C17_unset", t, m, 0, 0, 0, 1, 0))
				}
			}
			// serialize, change through held references, serialize again
			for what := 0; what <= 3; what++ {
				jobs = append(jobs, J(encPkg, "H_C17_modify", what))
			}
			return jobs
		},
		Explanation: "Bounded symbolic execution of Message.ToBytes over the shape catalogue. The harness builds, independently of the library, the list of (tag, canonical text) of exactly the populated leaves in template order with a count field before each non-empty group, frames it, and asserts byte equality with the library output for all symbolic values. Population routes: Set on the template value, replacement by the public constructors (NewString/NewInt/NewUint/NewFloat/NewTime/NewRaw), FromBytes; Set(nil) un-population.",
		Rule:        "case = (template, population mask, entry counts, length selector, route) x path; non-trivial = path condition non-empty",
		Bounds: map[string]string{
			"quick":    "as C01 quick",
			"thorough": "as C01 thorough",
		},
		Assumptions:  commonAssumptions,
		Outside:      "templates outside the catalogue",
		Differential: 8,
	}
	return m
}

func init() {
	extraSpecs = append(extraSpecs, func(m map[string]*CheckSpec) {
		m["C02"] = &CheckSpec{
			ID: "C02",
			Jobs: func(tier string) []Job {
				var jobs []Job
				for _, strict := range []int{0, 1} {
					for _, j := range shapeJobs(encPkg, "H_C02_roundtrip", tier, []int{0, 1}, lenSels(tier)) {
						j.Params = append(j.Params, strict)
						jobs = append(jobs, j)
					}
				}
				jobs = append(jobs, advJobs("H_C02_roundtrip", tier, true)...)
				return jobs
			},
			Explanation:  "Bounded symbolic execution of serialize -> encoding.Unmarshal -> serialize on the real SSA. Values are symbolic (strings: arbitrary non-SOH bytes, so '=', digits and text resembling other fields are inside the domain and the solver looks for contents that change the parse). Asserted: no error; every leaf has the same typed value (dynamic Go type included); unpopulated leaves stay null; every group has the same number of entries in the same order; re-serialization is byte-identical. Preconditions as in the property: unique tags, first member of every entry populated, no empty value.",
			Rule:         "case = (template, population mask, entry counts, length selector, route, strict flag) x path",
			Bounds:       map[string]string{"quick": "22 templates (14 generic + 8 with adversarial tag sets), depth <= 3, <= 3 entries, value length 1..3 (adversarial templates 1..6), ints one digit class per job <= 5 digits + 64-bit extremes", "thorough": "value length 1..6 everywhere, all 1024 populations of the all-types template"},
			Assumptions:  commonAssumptions,
			Outside:      "float64/time value semantics (uninterpreted, round-trip axiom); ints beyond 5 digits except the extremes; templates outside the catalogue",
			Differential: 8,
		}
		m["C18"] = &CheckSpec{
			ID: "C18",
			Jobs: func(tier string) []Job {
				jobs := advJobs("H_C02_roundtrip", tier, true)
				jobs = append(jobs, advJobs("H_C18_vbt", tier, false)...)
				for _, j := range shapeJobs(encPkg, "H_C18_vbt", tier, []int{0}, []int{1}) {
					jobs = append(jobs, j)
				}
				// message boundaries delivered by a connection (Conn.runReader on the scripted socket):
				// values made of / containing "10=", tags ending or starting with 10, symbolic value bytes
				for _, scn := range []int{0, 1, 4, 5} {
					for _, mode := range []int{1, 2} {
						jobs = append(jobs, J(rootPkg, "H_C04_reader", scn, mode, 0, 0, 0, 8, 0))
					}
					jobs = append(jobs, J(rootPkg, "H_C04_reader", scn, 0, 23, 3, 9, 8, 0))
					if tier != "quick" {
						for c1 := 20; c1 <= 60; c1 += 4 {
							jobs = append(jobs, J(rootPkg, "H_C04_reader", scn, 0, c1, 1+c1%5, 2, 8, 0))
						}
					}
				}
				return jobs
			},
			Explanation:  "Round-trip (as C02) and fix.ValueByTag oracles on templates built to be adversarial for substring search: tags that extend or truncate a template tag by one digit (1146/46/14 next to 146, 134/4 next to 34, 135/5 next to 35, 110/0 next to 10, 155/5 next to the first member 55, 1711 next to a nested count 711), String leaves of 2..6 unconstrained bytes before, inside and after groups (the solver itself places 'tag=' inside values when that can change the parse), with the genuine field/group present and absent. Message boundaries: Conn.runReader (real bufio code, scripted socket) over streams whose values are or contain '10=' and whose tags end or start with 10 (110, 210, 1010, 101, 100) with symbolic value bytes; the delivered messages must equal the sent ones.",
			Rule:         "case = (adversarial template, population mask, entry counts, length selector) x path; reader: (scenario, cut mode) x path",
			Bounds:       map[string]string{"quick": "5 adversarial templates, value length 2..6, <= 3 entries", "thorough": "more masks and entry-count combinations"},
			Assumptions:  commonAssumptions,
			Outside:      "Conn.runReader boundaries beyond reader scenarios 0/1/4/5 (cut positions exhaustively: C04); raw sequence-number extraction in the session under C16",
			Differential: 6,
		}
		m["C11"] = &CheckSpec{
			ID: "C11",
			Jobs: func(tier string) []Job {
				quick := tier == "quick"
				var jobs []Job
				maxRaw, maxFramed, maxW := 8, 6, 3
				if !quick {
					maxRaw, maxFramed, maxW = 11, 9, 5
				}
				for _, t := range []int{14, 15, 16, 22} {
					for n := 0; n <= maxRaw; n++ {
						jobs = append(jobs, J(encPkg, "H_C11_raw", n, t, n%2))
					}
					for n := 0; n <= maxFramed; n++ {
						jobs = append(jobs, J(encPkg, "H_C11_framed", n, t, n%2))
					}
				}
				// template 22 (every value type): framed bodies long enough for "35=x|t=" + empty value
				jobs = append(jobs, J(encPkg, "H_C11_framed", 7, 22, 0), J(encPkg, "H_C11_framed", 7, 22, 1))
				for n := 0; n <= 8; n++ {
					for k := 0; k <= 3; k++ {
						jobs = append(jobs, J(encPkg, "H_C11_vbt", n, k))
					}
				}
				// windows over valid nested shapes (concrete values, symbolic window + checksum text)
				type sh struct {
					t, nf int
					c     [3]int
				}
				shapes := []sh{{14, 6, [3]int{2, 0, 0}}, {15, 10, [3]int{2, 1, 0}}, {15, 12, [3]int{1, 2, 0}}, {16, 9, [3]int{2, 1, 0}}, {5, 10, [3]int{2, 1, 0}}, {13, 10, [3]int{1, 1, 1}}, {12, 10, [3]int{1, 1, 0}}, {8, 6, [3]int{1, 0, 0}}, {22, 9, [3]int{1, 0, 0}}}
				all := 1<<30 - 1
				masks := []int{all, all &^ 4, all &^ 2, 0x15555555}
				for _, s := range shapes {
					for _, mk := range masks {
						for f := 0; f < s.nf; f++ {
							for w := 1; w <= maxW; w++ {
								for mode := 0; mode <= 1; mode++ {
									if mode == 1 && w > 2 && quick {
										continue
									}
									if s.t == 22 && (w > 2 || mk != all) {
										continue // typed values make these windows expensive: tag= / t=x windows only
									}
									jobs = append(jobs, J(encPkg, "H_C11_window", s.t, mk, s.c[0], s.c[1], s.c[2], 0, 3, (f+w)%2, f, w, mode))
								}
							}
						}
					}
				}
				return jobs
			},
			Explanation:  "Bounded symbolic execution of encoding.Unmarshal (strict and non-strict) and fix.ValueByTag on (a) completely symbolic byte strings of every length 0..n, (b) correctly framed messages whose body is n completely symbolic bytes and whose checksum text is symbolic, so the integrity check can pass and field/group parsing is reached with adversarial content, (c) valid serialized nested shapes with a window of w symbolic bytes replacing one field or filling one field boundary. Every Go runtime panic on any feasible path is a violation; the per-path instruction budget is the unwinding assertion (termination).",
			Rule:         "case = (input class, length / window position and width, template) x path",
			Bounds:       map[string]string{"quick": "raw n<=8, framed body n<=6, ValueByTag msg<=8 tag<=3 bytes, windows w<=3 over 9 shapes x 4 populations (w<=2, full population for the every-value-type shape), templates with 1-digit tags (flat+group, group-in-group, component-in-group, every value type) and 6 catalogue shapes", "thorough": "raw n<=11, framed n<=9, windows w<=5"},
			Assumptions:  commonAssumptions,
			Outside:      "longer arbitrary regions; the session's inbound closures are exercised with damaged messages under C16",
			Differential: 6,
		}
		m["C03"] = &CheckSpec{
			ID: "C03",
			Jobs: func(tier string) []Job {
				quick := tier == "quick"
				var jobs []Job
				type sh struct {
					t, mask, ls, n int
					c              [3]int
				}
				shapes := []sh{{1, 7, 3, 46, [3]int{}}, {1, 6, 1, 36, [3]int{}}, {4, 1<<30 - 1, 0, 60, [3]int{1, 0, 0}}}
				if !quick {
					shapes = append(shapes, sh{9, 15, 1, 50, [3]int{}}, sh{5, 1<<30 - 1, 0, 70, [3]int{1, 1, 0}}, sh{1, 7, 4, 56, [3]int{}}) // value length class 5 gave solver unknowns at positions 24-25: reduced to class 4
				}
				for _, s := range shapes {
					for kind := 0; kind <= 3; kind++ {
						for pos := 0; pos < s.n; pos++ {
							jobs = append(jobs, J(encPkg, "H_C03_damage", s.t, s.mask, s.c[0], s.c[1], s.c[2], s.ls, 0, pos%2, kind, pos))
						}
					}
				}
				maxN := 7
				if !quick {
					maxN = 9
				}
				for n := 0; n <= maxN; n++ {
					for _, t := range []int{14, 15} {
						jobs = append(jobs, J(encPkg, "H_C03_accept", n, t, n%2, 1))
						if n >= 6 {
							jobs = append(jobs, J(encPkg, "H_C03_accept", n, t, n%2, 2))
						}
					}
				}
				return jobs
			},
			Explanation: "Bounded symbolic execution of encoding.Unmarshal. (A) damage neighbourhood: for a serialized shape with symbolic values and every concrete position: substitution by a symbolic byte different from the original (all 255 values in one query), insertion of a symbolic byte, deletion, truncation; asserted: an error is returned (strict flag alternates). (B) soundness of acceptance: 8=F|9=LL|X|10=ccc| with LL, X and ccc symbolic; whenever Unmarshal returns nil an independent oracle must find LL equal to the measured length and ccc equal to the recomputed checksum.",
			Rule:        "case = (shape, damage kind, position) x path, and (length, template) x path for (B)",
			Bounds:      map[string]string{"quick": "3 shapes (<= 60 bytes, including a 3-byte value next to a tag one byte away from the CheckSum tag), all positions x 4 damage kinds; acceptance oracle with body <= 7 bytes", "thorough": "6 shapes (<= 70 bytes), acceptance body <= 9 bytes"},
			Assumptions: commonAssumptions,
			Outside:     "multi-byte damage; messages longer than the stated shapes",
		}
	})
}

// advJobs: the adversarial-tag templates (17..21).
func advJobs(h string, tier string, withStrict bool) []Job {
	quick := tier == "quick"
	var jobs []Job
	all := 1<<30 - 1
	masks := []int{all, all &^ 1, all &^ 2, all &^ 4, 1, 2, 4, 0x15555555, 0x2AAAAAAA}
	if !quick {
		masks = append(masks, all&^8, all&^16, 8, 16, 0x33333333, 3, 5, 6)
	}
	cnts := map[int][][3]int{17: {{0, 0, 0}, {1, 0, 0}, {2, 0, 0}}, 18: {{0, 0, 0}}, 19: {{0, 0, 0}, {1, 0, 0}, {2, 0, 0}, {3, 0, 0}}, 20: {{0, 0, 0}, {1, 1, 0}, {2, 1, 0}, {2, 2, 0}, {1, 0, 0}}, 21: {{0, 0, 0}, {1, 0, 0}, {2, 0, 0}}}
	ls := []int{4, 5}
	if !quick {
		ls = []int{1, 3, 4, 5}
	}
	for t := 17; t <= 21; t++ {
		for _, c := range cnts[t] {
			for _, mk := range masks {
				for _, l := range ls {
					p := []int{t, mk, c[0], c[1], c[2], l, 0}
					if withStrict {
						p = append(p, (mk+l)%2)
					}
					jobs = append(jobs, J(encPkg, h, p...))
				}
			}
		}
	}
	return jobs
}

func init() {
	extraSpecs = append(extraSpecs, func(m map[string]*CheckSpec) {
		sessAssume := append(append([]string{}, commonAssumptions...),
			"step fixture: the session is built by the real constructors (NewAcceptorSession/NewInitiatorSession with the generated tests/fix44 builders, memory store), Run() is executed, and every inbound message is dispatched by DefaultHandler.serve - the call DefaultHandler.Run makes per message; goroutines started during a step are recorded, not run (their bodies are the subject of C08/C09)",
			"sync.Mutex/RWMutex/Once, context, atomic are modelled with their sequential semantics; time.Now is a non-decreasing stub; time.AfterFunc is recorded and fired by the harness",
			"history quantifiers are discharged by induction over single steps from every pre-state class listed in the bounds; the composition is argued in DESIGN.md, not by the solver")
		m["C14"] = &CheckSpec{
			ID: "C14",
			Jobs: func(tier string) []Job {
				var jobs []Job
				maxLen := 6
				if tier != "quick" {
					maxLen = 12
				}
				for role := 0; role <= 1; role++ {
					for l := 1; l <= maxLen; l++ {
						for pre := 0; pre <= 1; pre++ {
							for sc := 1; sc <= 2; sc++ {
								if sc == 2 && l > 8 {
									continue // two-digit sequence numbers with IDs over 8 bytes: solver unknowns at 60 s, reported as a reduced bound
								}
								jobs = append(jobs, J(sessPkg, "H_C14_echo", role, l, pre, sc))
								if l <= 2 && sc == 1 {
									// pre-state: second logon on the same session (logout exchange, logon again)
									jobs = append(jobs, J(sessPkg, "H_C14_echo", role, l, pre, sc, 1))
								}
							}
						}
					}
				}
				return jobs
			},
			Explanation:  "Symbolic step: a logged-on session (both roles; also from the state 'waiting for the answer to its own TestRequest') receives a TestRequest whose TestReqID bytes are symbolic (any byte but SOH, so '=', spaces, digits, '112=' are inside the domain), followed by a second one. Asserted for all IDs: exactly one message is transmitted per request, it is a Heartbeat, its TestReqID is byte-identical, it is in the outbound queue at the end of the step (before the next inbound message is dispatched).",
			Rule:         "case = (role, ID length, pre-state, sequence-number digit count) x path",
			Bounds:       map[string]string{"quick": "ID length 1..6, two consecutive requests", "thorough": "ID length 1..12 with one-digit sequence numbers, 1..8 with two-digit ones (longer IDs with two-digit numbers gave solver unknowns at the 60 s limit and are outside the claim)"},
			Assumptions:  sessAssume,
			Outside:      "IDs longer than the bound; interleaving with the timer goroutines (C05/C20)",
			Differential: 6,
		}
		m["C07"] = &CheckSpec{
			ID: "C07",
			Jobs: func(tier string) []Job {
				var jobs []Job
				for role := 0; role <= 1; role++ {
					for kind := 0; kind < 8; kind++ {
						for dmg := 0; dmg < 10; dmg++ {
							for fill := 0; fill <= 1; fill++ {
								if kind == 0 && dmg == 0 {
									if role == 0 {
										for v := 0; v <= 3; v++ {
											jobs = append(jobs, J(sessPkg, "H_C07_quiet", role, kind, dmg, fill, 1, v, 0, 0, 0, 0))
										}
										for hv := 0; hv <= 1; hv++ {
											jobs = append(jobs, J(sessPkg, "H_C07_quiet", role, kind, dmg, fill, 1, 4, 0, hv, 0, 0))
										}
									}
									continue
								}
								for hbv := 0; hbv <= 1; hbv++ {
									if hbv == 1 && kind != 2 {
										continue
									}
									jobs = append(jobs, J(sessPkg, "H_C07_quiet", role, kind, dmg, fill, 1+(kind+dmg)%2, 0, 0, 0, 0, hbv))
									if dmg == 0 || dmg == 1 {
										// the application called Logout() on a session nobody logged on to
										jobs = append(jobs, J(sessPkg, "H_C07_quiet", role, kind, dmg, fill, 1+(kind+dmg)%2, 0, 1, 0, 0, hbv))
									}
								}
							}
						}
					}
				}
				return jobs
			},
			Explanation:  "Inductive step from every not-logged-on pre-state reachable without a successful logon (acceptor waiting for a Logon, initiator waiting for the answer), with an empty message store and with a store filled by another, logged-on session. Inbound: every message kind (Logon made unacceptable four ways, Logout, Heartbeat, TestRequest, ResendRequest with a symbolic range, Reject, an application type, a symbolic unknown type), undamaged or damaged five ways, contents symbolic. Asserted: every transmitted message has MsgType A, 5 or 3; the session is still not logged on, in the same state class; no goroutine (timer) was started.",
			Rule:         "case = (role, message kind, damage kind, store filled?, logon-refusal variant) x path",
			Bounds:       map[string]string{"quick": "one step (induction), ResendRequest range 0..9 x 0..9, store holding 3 messages of another session", "thorough": "same"},
			Assumptions:  sessAssume,
			Outside:      "message stores other than the bundled in-memory one",
			Differential: 6,
		}
		m["C16"] = &CheckSpec{
			ID: "C16",
			Jobs: func(tier string) []Job {
				var jobs []Job
				for role := 0; role <= 1; role++ {
					for pre := 0; pre <= 1; pre++ {
						for kind := 0; kind <= 4; kind++ {
							for dmg := 0; dmg < 11; dmg++ {
								for extra := 0; extra <= 1; extra++ {
									if extra == 1 && dmg != 0 {
										continue
									}
									jobs = append(jobs, J(sessPkg, "H_C16_reject", role, pre, kind, dmg, 1+(kind+dmg)%2, extra, 0, 0, 0, kind%2))
									if pre == 1 && extra == 0 && (dmg == 0 || dmg == 1 || dmg == 4) {
										// the same from the pre-state "second logon on the same session"
										jobs = append(jobs, J(sessPkg, "H_C16_reject", role, pre, kind, dmg, 1+(kind+dmg)%2, extra, 1, 0, 0, kind%2))
									}
									if kind == 0 && (dmg == 0 || dmg == 1) {
										// Logon carrying ResetSeqNumFlag=Y
										jobs = append(jobs, J(sessPkg, "H_C16_reject", role, pre, kind, dmg, 1+(kind+dmg)%2, extra, 0, 0, 0, 2))
									}
								}
							}
						}
					}
				}
				return jobs
			},
			Explanation:  "Two-step symbolic harness: an administrative message (Logon, Logout, Heartbeat, TestRequest, ResendRequest) that is damaged (wrong checksum byte, wrong BodyLength digit, non-numeric numeric field, non-numeric or missing MsgSeqNum) or not permitted in the state, then a valid message. Asserted after step 1: exactly one message transmitted, a Reject, RefSeqNum = the offending MsgSeqNum (or RefTagID = 34 when that number is unusable); logged-on status unchanged; neither context cancelled; no session event. After step 2: the valid message is processed normally (TestRequest echoed / Logon accepted).",
			Rule:         "case = (role, pre-state, message kind, damage kind, also-missing-seqnum) x path",
			Bounds:       map[string]string{"quick": "pre-states: waiting for logon, waiting for logon answer, logged on; one invalid + one valid message", "thorough": "same"},
			Assumptions:  sessAssume,
			Outside:      "the state 'waiting for TestRequest answer' (any inbound message legitimately changes it, see C09)",
			Differential: 6,
		}
		m["C06"] = &CheckSpec{
			ID: "C06",
			Jobs: func(tier string) []Job {
				var jobs []Job
				lims := [][2]int{{20, 60}, {30, 30}}
				if tier != "quick" {
					lims = append(lims, [2]int{10, 99}, [2]int{1, 20})
				}
				for _, l := range lims {
					for as := 0; as <= 1; as++ {
						for first := 0; first <= 5; first++ {
							for creds := 0; creds <= 2; creds++ {
								for am := 0; am <= 1; am++ {
									if am == 1 && creds == 2 {
										continue
									}
									if creds == 2 && first != 0 && tier == "quick" {
										continue
									}
									jobs = append(jobs, J(sessPkg, "H_C06_acceptor", l[0], l[1], as, 0, 1+first%2, first, creds, am))
								}
							}
							for _, dmg := range []int{1, 2, 3, 4, 5, 8, 9} { // 8/9: 20-digit HeartBtInt / MsgSeqNum
								if first == 0 || first == 5 || first == 3 {
									jobs = append(jobs, J(sessPkg, "H_C06_acceptor", l[0], l[1], as, dmg, 1, first, 0, 0))
								}
							}
						}
					}
				}
				for _, hb := range []int{1, 30, 3600} {
					for _, dmg := range []int{0, 1, 2, 5} {
						for between := -1; between < 8; between++ {
							if between == 0 {
								continue
							}
							jobs = append(jobs, J(sessPkg, "H_C06_initiator", hb, dmg, 1, between))
						}
					}
				}
				// after a logout the session is logged on again only through a new Logon
				for role := 0; role <= 1; role++ {
					for how := 0; how <= 2; how++ {
						for kind := 1; kind < 8; kind++ {
							j := J(sessPkg, "H_C06_afterlogout", role, how, kind, 0)
							j.EngineReplay = true
							jobs = append(jobs, j)
						}
						for _, dmg := range []int{1, 2, 5} {
							j := J(sessPkg, "H_C06_afterlogout", role, how, 2, dmg)
							j.EngineReplay = true
							jobs = append(jobs, j)
						}
					}
				}
				return jobs
			},
			Explanation:  "Symbolic step(s) of the Logon handler. Acceptor: a Logon with symbolic encryption method, heartbeat interval, credentials, reset flag and sequence number, undamaged or damaged, optionally preceded by a first Logon step (refused four ways, or accepted); the application callback approves symbolically or by username. Asserted: IsLogged' <=> (well-formed && method allowed && min<=hb<=max && approved); accepted: first answer is a Logon echoing 108 and 98, logon event once, only ResendRequests may follow; refused: exactly one Reject with RefSeqNum (and RefTagID 98/108 for a parameter refusal), no timers, no event; while logged on: one Reject, settings/timers/events untouched. Initiator: first transmission is the Logon with the configured 108/98/553/554 and MsgSeqNum 1; logged on only after an undamaged Logon comes back, not by any other message kind.",
			Rule:         "case = (limits, allowed set, damage, first-step variant, credentials, approval mode) x path",
			Bounds:       map[string]string{"quick": "heartbeat interval 10..99 vs limits {20..60, 30..30}; at most two Logon steps; method 1 byte; credentials 2 bytes", "thorough": "more limit pairs"},
			Assumptions:  sessAssume,
			Outside:      "histories are covered by induction over steps together with C07/C16 (no other step logs a session on)",
			Differential: 6,
		}
		m["C10"] = &CheckSpec{
			ID: "C10",
			Jobs: func(tier string) []Job {
				var jobs []Job
				maxK := 3
				if tier != "quick" {
					maxK = 5
				}
				for role := 0; role <= 1; role++ {
					for k := 0; k <= maxK; k++ {
						for bc := 0; bc <= 1; bc++ {
							for ec := 0; ec <= 1; ec++ {
								for tw := 0; tw <= 1; tw++ {
									if (bc == 1 || ec == 1 || k > 2) && tw == 1 {
										continue
									}
									jobs = append(jobs, J(sessPkg, "H_C10_resend", role, k, bc, ec, tw, 0))
									if tw == 0 && bc == 0 && ec == 0 && k <= 2 {
										jobs = append(jobs, J(sessPkg, "H_C10_resend", role, k, bc, ec, tw, 1))
									}
									if bc == 0 && ec == 0 && k <= 1 && tw == 0 {
										// history produced by the session's own timers and replies
										j := J(sessPkg, "H_C10_resend", role, k, bc, ec, tw, 0, 1)
										j.EngineReplay = true
										jobs = append(jobs, j)
									}
								}
							}
						}
					}
					// long histories (concrete contents), and a history that starts before the logon
					for _, c := range [][4]int{{70, 1, 0, 0}, {70, 2, 69, 0}, {66, 64, 66, 0}, {130, 1, 0, 0}, {4, 1, 0, 1}, {4, 2, 5, 1}, {70, 1, 0, 1}} {
						jobs = append(jobs, J(sessPkg, "H_C10_long", role, c[0], c[1], c[2], c[3]))
					}
					if role == 0 {
						jobs = append(jobs, J(sessPkg, "H_C10_long", 0, 3, 1, 0, 0, 1), J(sessPkg, "H_C10_long", 0, 3, 2, 6, 1, 1))
					}
					for cc := 0; cc <= 1; cc++ {
						for nc := 0; nc <= 1; nc++ {
							jobs = append(jobs, J(sessPkg, "H_C10_gap", role, cc, nc))
						}
					}
				}
				return jobs
			},
			Explanation:  "Symbolic harness: a logged-on session sends k messages of mixed types with symbolic contents; their first transmissions are recorded from the outbound queue; (in further cases the history is produced by the session itself: two TestRequests from the silence timer, each answered, two Heartbeats from the heartbeat timer, an echo of the peer's TestRequest); then one or two ResendRequests with symbolic BeginSeqNo/EndSeqNo (0..99, so inside, e=0, b=e, beyond last, b>e, b=0, repeated) are dispatched. Asserted: for 1<=b<=e<=last (e=0 meaning last) exactly the recorded messages b..e, ascending, byte-identical; otherwise nothing outside the range and nothing new. Gap detection: stored last-received number c and Logon MsgSeqNum n symbolic: n>c+1 => exactly one ResendRequest with BeginSeqNo=c+1 covering the gap; otherwise none.",
			Rule:         "case = (role, k, range classes, one or two requests) x path (ranges are concretised by forking, so every (b,e) is its own path)",
			Bounds:       map[string]string{"quick": "k<=3 messages after the logon exchange, b,e in 0..99, <=2 requests; concrete-content histories of 4, 66, 70 and 130 messages with fixed ranges, optionally preceded by a pre-logon Reject", "thorough": "k<=5"},
			Assumptions:  sessAssume,
			Outside:      "stores other than the bundled one; PossDupFlag semantics (not part of the property)",
			Differential: 4,
		}
		m["C15"] = &CheckSpec{
			ID: "C15",
			Jobs: func(tier string) []Job {
				var jobs []Job
				for role := 0; role <= 1; role++ {
					for sc := 0; sc <= 7; sc++ {
						jobs = append(jobs, J(sessPkg, "H_C15_logout", role, sc, 0))
						if sc != 1 {
							jobs = append(jobs, J(sessPkg, "H_C15_logout", role, sc, 1))
						}
					}
				}
				return jobs
			},
			Explanation: "Symbolic steps of the Logout handler, Session.Logout and Session.Stop with the close timeout a symbolic duration (0 included): (0) peer Logout while logged on -> exactly one Logout, not logged on, a repeated Logout is not acknowledged again; (1) local Logout then peer Logout -> nothing transmitted, logout event once; (2) Stop: one Logout, exactly one deadline timer armed with exactly CloseTimeout, context not yet cancelled; peer's Logout -> context cancelled without the timer firing; (3) Stop, no answer, the harness fires the deadline closure -> context cancelled; (4) Stop whose Logout is refused by an outgoing handler; (5) answer after a probe; (6/7) local Logout then Stop before the answer -> cancelled by the answer / at the deadline.",
			Rule:        "case = (role, scenario) x path",
			Bounds:      map[string]string{"quick": "8 scenarios x 2 roles x 2 pre-states; CloseTimeout symbolic in [0, 2^40] ns", "thorough": "same"},
			Assumptions: append(append([]string{}, sessAssume...), "'at the latest after CloseTimeout' is the contract of time.AfterFunc (recorded stub); scenarios 2/3 are replayed in the engine because the native build cannot fire the timer on demand"),
			Outside:     "real-time behaviour of time.AfterFunc",
			Replay:      "engine",
		}
		m["C19"] = &CheckSpec{
			ID: "C19",
			Jobs: func(tier string) []Job {
				var jobs []Job
				for nAll := 0; nAll <= 3; nAll++ {
					for nType := 0; nType <= 2; nType++ {
						for _, order := range []int{0, 1, 2, 5, 10, 21} {
							for failAt := 0; failAt <= 2; failAt++ {
								for kind := 0; kind <= 1; kind++ {
									if (order > 2 && nAll+nType < 3) || (kind == 1 && failAt == 2) {
										continue
									}
									jobs = append(jobs, J(sessPkg, "H_C19_send", nAll, nType, order, failAt, kind, 1+failAt%2, 0))
									if nAll+nType >= 1 && failAt == 0 {
										jobs = append(jobs, J(sessPkg, "H_C19_send", nAll, nType, order, failAt, kind, 1, 1))
									}
									if nAll >= 1 && order <= 1 {
										// the application removes its first all-types handler again
										jobs = append(jobs, J(sessPkg, "H_C19_send", nAll, nType, order, failAt, kind, 1+failAt%2, 0, 1))
									}
								}
							}
							for kind := 0; kind < 8; kind += 3 {
								jobs = append(jobs, J(sessPkg, "H_C19_inbound", nAll, nType, order, kind))
							}
						}
					}
				}
				for dir := 0; dir <= 1; dir++ {
					for two := 0; two <= 1; two++ {
						jobs = append(jobs, J(sessPkg, "H_C19_late", dir, two))
					}
				}
				for role := 0; role <= 1; role++ {
					for at := 0; at <= 3; at++ {
						jobs = append(jobs, J(sessPkg, "H_C19_replay", role, at))
					}
				}
				for n := 0; n <= 4; n++ {
					jobs = append(jobs, J(sessPkg, "H_C19_events", n))
				}
				return jobs
			},
			Explanation:  "Symbolic harness over Session.Send / DefaultHandler.send / serve / EventHandlerPool.Trigger: up to 3 all-types and 2 type-specific outgoing handlers registered in interleaved orders, each refusing iff its own symbolic boolean; an instrumented MessageStorage whose k-th Save fails. Asserted per Send: the call log is store hook, all-types handlers in registration order, type handlers in registration order, stopping at the first refusal or store failure; handlers of another type are never called; on veto nothing is transmitted and Send returns an error; otherwise exactly one message is transmitted, it was saved under its own MsgSeqNum, and the store and every handler saw exactly the transmitted bytes. Inbound: all-types handlers then own-type handlers, each pool in registration order with early exit. Events: registration order with early exit.",
			Rule:         "case = (numbers of handlers, registration interleaving, failing save index, message type, number of sends) x path (one path per accept/refuse pattern)",
			Bounds:       map[string]string{"quick": "<= 3 all-types + 2 type handlers, <= 2 sends, save failure at index 1 or 2", "thorough": "same"},
			Assumptions:  sessAssume,
			Outside:      "handler removal (HandlerPool.Remove)",
			Differential: 4,
		}
	})
}

const utilsPkg = modPath + "/utils"

func init() {
	extraSpecs = append(extraSpecs, func(m map[string]*CheckSpec) {
		conc := append(append([]string{}, commonAssumptions...),
			"goroutines are interpreted with sequentially consistent interleaving at synchronisation operations (mutex, atomic, channel, select, context cancel, go); cooperative deterministic scheduling unless a harness asks for schedule exploration, which is preemption-bounded (CHESS-style)",
			"unbuffered channels are approximated: a send deposits the value and waits until it is taken",
			"net.Conn is a scripted in-memory type; time.Now is a non-decreasing stub; utils.Timer.TakeTimeout is harness-fired in the session-level harnesses (its own loop is verified separately against a symbolic clock)")
		m["C04"] = &CheckSpec{
			ID: "C04",
			Jobs: func(tier string) []Job {
				var jobs []Job
				quick := tier == "quick"
				// reader: scenario 0 (3 symbolic tiny messages, 78..84 bytes total): every first cut position, then pairs
				for c1 := 1; c1 <= 40; c1++ {
					jobs = append(jobs, J(rootPkg, "H_C04_reader", 0, 0, c1, 1+c1%5, 2, 8, 0))
				}
				step := 3
				if !quick {
					step = 1
				}
				for c1 := 1; c1 <= 30; c1 += step {
					for c2 := 1; c2 <= 30; c2 += step {
						jobs = append(jobs, J(rootPkg, "H_C04_reader", 0, 0, c1, c2, 1+(c1+c2)%4, 8, 0))
					}
				}
				for scn := 0; scn <= 5; scn++ {
					for _, mode := range []int{1, 2} {
						for _, buf := range []int{0, 1, 2, 8} {
							jobs = append(jobs, J(rootPkg, "H_C04_reader", scn, mode, 0, 0, 0, buf, 0))
						}
					}
					for _, c := range [][3]int{{1, 1, 1}, {20, 1, 2}, {26, 26, 26}, {27, 3, 100}, {5000, 17, 9}, {5021, 1, 30}, {25, 1, 1}, {24, 1, 1}, {23, 1, 1}, {22, 2, 1}} {
						jobs = append(jobs, J(rootPkg, "H_C04_reader", scn, 0, c[0], c[1], c[2], 8, 0))
					}
					for _, part := range []int{1, 5, 12, 20, 24} {
						jobs = append(jobs, J(rootPkg, "H_C04_reader", scn, 1+part%2, 0, 0, 0, 8, part))
					}
				}
				for k := 0; k <= 4; k++ {
					for failAt := 0; failAt <= 2; failAt++ {
						for mode := 0; mode <= 2; mode++ {
							if failAt == 0 && mode > 0 {
								continue
							}
							jobs = append(jobs, J(rootPkg, "H_C04_writer", k, failAt, mode))
						}
					}
				}
				for scn := 0; scn <= 4; scn++ {
					for _, pause := range []int{3, 19, 27, 40} {
						jobs = append(jobs, J(rootPkg, "H_C04_reader", scn, 2, 0, 0, 0, 8, 0, pause))
						jobs = append(jobs, J(rootPkg, "H_C04_reader", scn, 0, 11, 7, 30, 8, 0, pause))
					}
				}
				for scn := 0; scn <= 4; scn++ {
					for _, mode := range []int{0, 1, 2} {
						for _, buf := range []int{0, 1, 2} {
							jobs = append(jobs, J(rootPkg, "H_C04_initiator", scn, mode, 9, 4, 21, buf, (scn+buf)%4))
						}
					}
				}
				for _, p := range [][4]int{{0, 3, 0, 1}, {3, 0, 1, 0}, {1, 4, 2, 2}, {2, 3, 2, 1}, {4, 1, 1, 1}, {0, 0, 1, 0}} {
					jobs = append(jobs, J(rootPkg, "H_C04_acceptor", p[0], p[1], p[2], p[3]))
				}
				// an application that answers every inbound message from its callback, buffers 0..2,
				// schedules explored (coarse, preemption bound 0..1, 2 rotations)
				for _, scn := range []int{0, 1, 3} {
					for _, buf := range []int{0, 1, 2} {
						for pb := 0; pb <= 1; pb++ {
							for rot := 0; rot <= 1; rot++ {
								j := J(rootPkg, "H_C04_acceptor", scn, 0, (scn+buf)%3, buf, 1, pb, rot)
								j.EngineReplay = true
								jobs = append(jobs, j)
							}
						}
					}
				}
				return jobs
			},
			Explanation: "Symbolic execution of (a) Conn.runReader over the real bufio.Reader SSA on a scripted net.Conn that hands out the concatenation of 1-3 well-formed messages (symbolic type/values; scenarios with '10=' inside values, a tag ending in the CheckSum tag with a three-character value, a 5000-byte message followed by small ones) cut at every first position, at pairs of positions, one byte per read and all at once, with channel buffer sizes 0/1/2/8 and a trailing partial message; (b) Conn.Write for k messages with an injected write failure; (c) the complete Initiator.Serve plumbing (conn.serve + reader goroutine, DefaultHandler.Run, writer loop, forwarder loop, errgroup) and (d) two concurrent Acceptor.serve calls on one Acceptor, all as interpreted goroutines; (e) one Acceptor.serve whose application answers every inbound message from inside its callback, buffers 0..2, coarse schedule exploration (a stuck hand-off between reader, handler loop and writer is a deadlock = violation). Asserted: the handler gets exactly the peer's messages, once, in order, byte-identical, and only those of its own connection; nothing for a partial message; end of stream ends the reader with an error; outbound messages reach their own socket whole, once, in hand-off order with a deadline set; Serve returns and the socket is closed after the peer closes.",
			Rule:        "case = (scenario, cut placement / mode, buffer size, partial length) x path",
			Bounds: map[string]string{
				"quick":    "<=3 messages per stream (78..5100 bytes), all single cut positions 1..40, pairs on a 3-step grid up to 30, buffer sizes 0/1/2/8; Serve/serve plumbing under the deterministic cooperative scheduler (one schedule)",
				"thorough": "all pairs of cut positions up to 30",
			},
			Assumptions:  conc,
			Outside:      "read timing and arbitrary schedules of the plumbing goroutines (one deterministic schedule is executed); more than two simultaneous connections; FIFO order of Go channels (language guarantee)",
			Differential: 6,
		}
		m["C05"] = &CheckSpec{
			ID: "C05",
			Jobs: func(tier string) []Job {
				var jobs []Job
				for role := 0; role <= 1; role++ {
					for nc := 0; nc <= 1; nc++ {
						for what := 0; what <= 6; what++ {
							for reset := 0; reset <= 1; reset++ {
								if reset == 1 && (what > 1 || nc == 1) {
									continue
								}
								jobs = append(jobs, J(sessPkg, "H_C05_step", role, nc, what, reset))
							}
						}
					}
					combos := []int{0, 1, 2, 3}
					if tier != "quick" {
						combos = append(combos, 4)
					}
					for _, combo := range combos {
						jobs = append(jobs, J(sessPkg, "H_C05_sched", role, combo, 0))
					}
					if role == 0 {
						for mode := 0; mode <= 1; mode++ {
							for _, kj := range [][2]int{{0, 0}, {2, 0}, {0, 3}, {3, 1}, {7, 2}} {
								jobs = append(jobs, J(sessPkg, "H_C05_history", mode, kj[0], kj[1]))
							}
						}
					}
					// small outbound buffers with a concurrent writer
					for buf := 1; buf <= 2; buf++ {
						for second := 0; second <= 1; second++ {
							for pb := 0; pb <= 2; pb++ {
								for rot := 0; rot <= 1; rot++ {
									if tier == "quick" && pb == 2 && second == 1 {
										continue
									}
									jobs = append(jobs, J(sessPkg, "H_C05_buffer", role, buf, 3, second, pb, rot))
								}
							}
						}
					}
				}
				return jobs
			},
			Explanation: "(a) Inductive step: the outgoing counter is set to a symbolic n after a real logon exchange (peer identifiers symbolic, ResetSeqNumFlag symbolic); one message is produced by each producer kind (application Send x3 types, reply to an inbound TestRequest, Reject of a damaged message, heartbeat-timer expiry, silence-timer expiry); asserted: exactly one message transmitted, MsgSeqNum = n+1, Sender/TargetCompID = the session's (mirrored on the acceptor), SendingTime in FIX layout and read between entry and exit of the call, counter = n+1, a later session on the same store continues with n+2; the logon exchange itself uses number 1. (b) Schedule exploration: two (thorough: three) concurrent producers - application Send with another Send, with the reply to an inbound TestRequest, with a heartbeat-timer expiry, with a Reject - every interleaving at synchronisation operations with at most 2 preemptions; asserted: the outbound queue holds consecutive ascending numbers. (c) Outbound buffer of 1 or 2 with a concurrent writer goroutine taking messages from the queue while one goroutine sends three messages (and optionally a second goroutine one more): coarse schedule exploration (switches at channel/select/cancel/go operations, preemption bound 0..2, two pick rotations); asserted: the writer receives 1,2,3,... in order. (d) Multi-step histories on one counter store with unequal traffic in the two directions: one message object sent three times while queued, k sends, j inbound messages, then a later session on the same store or a logout and second logon, the peer's Logon continuing its own numbering.",
			Rule:        "case = (role, producer kind, counter digit class, reset flag) x path for (a); (role, producer combination) x schedule for (b)",
			Bounds:      map[string]string{"quick": "n in 1..8 / 10..98; <=2 concurrent producers, one message each, preemption bound 2 (~600-3600 schedules per combination); buffer 1..2, 3+1 messages, preemption bound <=2", "thorough": "plus a three-producer combination with preemption bound 1"},
			Assumptions: conc,
			Outside:     "more than 3 concurrent producers or more than one message each; preemption between arbitrary instructions (needs C20); GOMAXPROCS; stores other than the bundled one",
			Replay:      "engine",
		}
		m["C08"] = &CheckSpec{
			ID: "C08",
			Jobs: func(tier string) []Job {
				var jobs []Job
				ticks := 3
				if tier != "quick" {
					ticks = 5
				}
				for k := 1; k <= ticks; k++ {
					for mode := 0; mode <= 1; mode++ {
						j := J(utilsPkg, "H_C08_timer", k, mode)
						j.Solver = "cvc5int"
						jobs = append(jobs, j)
					}
				}
				for c := 0; c <= 2; c++ {
					j := J(utilsPkg, "H_C08_newtimer", c)
					j.Solver = "cvc5int"
					jobs = append(jobs, j)
				}
				for role := 0; role <= 1; role++ {
					for _, hc := range []int{0, 1, 1, 2, 5, 19, 20, 21, 39, 40, 60, 3600} {
						jobs = append(jobs, J(sessPkg, "H_C08_params", role, hc))
					}
					for kind := 0; kind <= 3; kind++ {
						jobs = append(jobs, J(sessPkg, "H_C08_refresh", role, 0, kind))
						jobs = append(jobs, J(sessPkg, "H_C08_refresh", role, 0, kind, 1)) // after a second logon
					}
					for st := 0; st <= 1; st++ {
						for canc := 0; canc <= 2; canc++ {
							jobs = append(jobs, J(sessPkg, "H_C08_heartbeat", role, st, canc))
							jobs = append(jobs, J(sessPkg, "H_C08_heartbeat", role, st, canc, 1))
						}
					}
				}
				// logon, logout, second logon on the same session (both intervals symbolic, and boundary pairs)
				for _, p := range [][2]int{{0, 0}, {1, 2}, {2, 1}, {30, 30}, {1, 3600}, {3600, 1}} {
					jobs = append(jobs, J(sessPkg, "H_C08_relogon", 0, p[0], p[1], 0))
				}
				jobs = append(jobs, J(sessPkg, "H_C08_relogon", 1, 0, 0, 0), J(sessPkg, "H_C08_relogon", 1, 1, 1, 0))
				return jobs
			},
			Explanation: "Four solver-checked lemmas over the real code. (1) Parameters: after a logon with heartbeat interval N (symbolic 2- and 3-digit, plus concrete boundary values) exactly two timers and two goroutines exist, the heartbeat timer's timeout is N s, polling granularity <= N/10. (2) Refresh: each outbound message (application Send, reply produced on the inbound path) sets the heartbeat timer's lastUpdate to a clock value read during that step. (3) Timer.TakeTimeout run as a goroutine against a symbolic non-decreasing 64-bit clock, harness-driven poll ticks and symbolic decisions to Refresh between ticks: at every tick, returned <=> reading >= latest refresh + timeout, and never sooner than timeout after entry (decided by cvc5 with integer blasting; z3 does not finish these 64-bit signed comparisons). (4) One iteration of the heartbeat goroutine after the timer expires: exactly one Heartbeat without TestReqID, also while waiting for a TestRequest answer; it exits silently when the session is cancelled; it waits for the next period afterwards. (5) History logon(N1), logout exchange, logon(N2) on one session: afterwards every timer whose expiry still emits a Heartbeat is armed with at least the interval in force, and one armed with exactly it is live. Composition into 'gap <= N + N/10 + scheduling slack, no unsolicited Heartbeat before N' is argued in DESIGN.md.",
			Rule:        "case = lemma instance x path",
			Bounds:      map[string]string{"quick": "TakeTimeout: <=3 poll ticks with optional refresh before each, timeout in [10us, 2^40 ns], instants < 2^61 ns; N in 10..999 symbolic and {1,2,5,19,20,21,39,40,60,3600}", "thorough": "<=5 poll ticks"},
			Assumptions: conc,
			Outside:     "real scheduling slack; behaviour of time.Ticker itself (stubbed: delivers ticks when the harness says so); more than two logons on one session object",
			Replay:      "engine",
		}
		m["C09"] = &CheckSpec{
			ID: "C09",
			Jobs: func(tier string) []Job {
				var jobs []Job
				for role := 0; role <= 1; role++ {
					for _, hc := range []int{0, 1, 1, 19, 20, 21, 39, 40, 41, 100, 3600} {
						jobs = append(jobs, J(sessPkg, "H_C08_params", role, hc))
					}
					for k := 0; k < 8*6; k++ {
						if k/8 != 0 && k%8 > 5 {
							continue
						}
						jobs = append(jobs, J(sessPkg, "H_C08_refresh", role, 1, k))
					}
					jobs = append(jobs, J(sessPkg, "H_C09_probe", role, 0, 0), J(sessPkg, "H_C09_probe", role, 2, 0), J(sessPkg, "H_C09_probe", role, 3, 0))
					// silence that begins while a local Logout is unanswered
					jobs = append(jobs, J(sessPkg, "H_C09_probe", role, 0, 0, 0, 1))
					// the same from the pre-state "second logon on the same session"
					jobs = append(jobs, J(sessPkg, "H_C09_probe", role, 0, 0, 1), J(sessPkg, "H_C09_probe", role, 2, 0, 1), J(sessPkg, "H_C09_probe", role, 1, 2, 1), J(sessPkg, "H_C09_probe", role, 1, 7, 1))
					for _, k := range []int{0, 2, 3, 6, 7, 9} {
						jobs = append(jobs, J(sessPkg, "H_C08_refresh", role, 1, k, 1))
					}
					for k := 0; k < 8*6; k += 1 {
						if k/8 != 0 && k%8 > 4 {
							continue
						}
						jobs = append(jobs, J(sessPkg, "H_C09_probe", role, 1, k))
					}
				}
				for k := 1; k <= 3; k++ {
					j := J(utilsPkg, "H_C08_timer", k, 1)
					j.Solver = "cvc5int"
					jobs = append(jobs, j)
				}
				for _, p := range [][2]int{{0, 0}, {1, 2}, {2, 1}, {19, 41}, {30, 30}, {1, 3600}} {
					jobs = append(jobs, J(sessPkg, "H_C08_relogon", 0, p[0], p[1], 1))
				}
				jobs = append(jobs, J(sessPkg, "H_C08_relogon", 1, 0, 0, 1))
				return jobs
			},
			Explanation: "Lemmas over the real code. (1) The silence timer is armed with N + max(1, N/20) seconds (symbolic and boundary N). (2) Every inbound message of every kind, damaged or not, refreshes the silence timer to the clock value of that step and cancels a pending disconnect (state 'waiting for TestRequest answer' is left). (3) Iterations of the silence goroutine with the harness firing the timer: first expiry -> exactly one TestRequest with TestReqID 1 and no disconnect; second expiry without inbound traffic -> disconnect event once, session context cancelled, handler stopped, goroutine exits, no further TestRequest; any inbound message in the second period -> the next expiry sends TestRequest 2 instead of disconnecting; cancelled session -> silent exit. (4) The TakeTimeout lemma of C08 (a timer cannot expire while the last refresh is younger than its timeout, and expires at the first poll after it) instantiated for a re-used timer. (5) History logon(N1), logout exchange, logon(N2) on one session: afterwards every timer whose expiry still emits a TestRequest is armed with at least the period in force, and one armed with exactly it is live.",
			Rule:        "case = lemma instance x path",
			Bounds:      map[string]string{"quick": "as C08; inbound kinds: 8 message kinds x 6 damage kinds", "thorough": "same"},
			Assumptions: conc,
			Outside:     "that cancelling the handler context makes Acceptor.serve / Initiator.Serve close the socket is covered for the peer-close case by C04's plumbing harness only; real-time slack",
			Replay:      "engine",
		}
	})
}

func init() {
	extraSpecs = append(extraSpecs, func(m map[string]*CheckSpec) {
		m["C20"] = &CheckSpec{
			ID:      "C20",
			Lockset: true,
			Jobs: func(tier string) []Job {
				var jobs []Job
				for side := 0; side <= 1; side++ {
					for kind := 0; kind < 8; kind++ {
						jobs = append(jobs, J(sessPkg, "H_C20_lockset", side, kind))
					}
				}
				return jobs
			},
			Extra: func(tier string, ev *Evidence) ([]string, error) {
				return raceScenario(ev)
			},
			Explanation: "Two stages. (1) Symbolic lockset analysis: every role the library's threading allows to run concurrently (two application senders, the inbound dispatch goroutine with TestRequest/Heartbeat/ResendRequest/Logon/application/Logout messages of symbolic content, a state query, event registration, one iteration of each timer goroutine including the probe and the disconnect path, Session.Stop) executes its steps in the engine, which records every load/store/map access made by library code with the set of mutexes held and whether it was atomic; a candidate is a pair of accesses of two different roles to the same cell, at least one a write, not both atomic, with disjoint locksets, on any feasible path. Lockset discipline is stricter than race freedom, so candidates are listed in the evidence but are not violations by themselves. (2) Confirmation: a native scenario that runs all these roles really concurrently (timers with a 1 s interval actually expire) is built with -race; a data race reported by the Go race detector with a frame in library code is a violation.",
			Rule:        "case = role-step path (lockset) / race-detector run per role (confirmation)",
			Bounds:      map[string]string{"quick": "one step (or two) per role, both session roles; race scenario ~4 s per role", "thorough": "same"},
			Assumptions: append(append([]string{}, commonAssumptions...), "the Go race detector reports only real races (no false positives) but only for interleavings that occur in the run; the lockset stage covers all inputs of the role steps but over-approximates concurrency"),
			Outside:     "races that need more than the listed steps per role to set up; HandlerPool.Remove; the Acceptor/Initiator/Conn goroutine plumbing",
			Replay:      "engine",
		}
	})
}

func init() {
	extraSpecs = append(extraSpecs, func(m map[string]*CheckSpec) {
		m["C12"] = &CheckSpec{
			ID:           "C12",
			NoEngineJobs: true,
			Jobs:         func(tier string) []Job { return nil },
			Extra:        c12Check,
			Explanation:  "Translation validation. cmd/fixgen is built from the current tree and run on: source/fix44.xml; generator/testdata/fix.4.4.xml with its duplicate message type removed (quick: its first 12 messages with all components); and K schemas derived from the reference by removing / swapping / renaming / adding fields, toggling 'required', re-typing through the type mapping, removing a message, adding a group member (seeded by VERIF_SEED). For each, an oracle that reads the XML independently of the generator package derives a driver that uses every generated constant, constructor and accessor by the name and Go type the schema implies; generated package + driver are loaded into the symbolic engine and for every container (message, component, header, trailer, group entry) and every field member: set it with a symbolic value on an otherwise minimal container and assert getter == value and wire == exactly the expected tag=value at its schema position (all values, one solver query); the populating constructor with symbolic required arguments yields exactly the required members in schema order; a fully populated container serializes its members in schema order; MsgType/Field constants equal the schema's. A driver that does not compile against the generated package is a violation (names, arity or Go types differ from the schema). Side conditions checked concretely: deterministic output, same files for relative / nested / absolute output directories, duplicate message types and field numbers rejected, tests/fix44 equals the regenerated reference package declaration by declaration.",
			Rule:         "program = one generated package; case = (container, member, mode) x path",
			Bounds:       map[string]string{"quick": "2 shipped schemas (large one truncated to 12 messages) + 10 derived; values: strings 2 bytes, ints 10..99, floats/times opaque", "thorough": "full large schema (92 messages) + 30 derived"},
			Assumptions:  append(append([]string{}, commonAssumptions...), "the oracle's reading of the schema conventions (naming: <NoX> -> XGrp/XEntry, Create<Msg>/New<Component> take the required members, enumerated non-boolean fields are strings, BeginString/BodyLength/MsgType/CheckSum excluded from header/trailer components) is part of the claim"),
			Outside:      "schemas outside the enumerated family; that the generator terminates or fails cleanly on arbitrary XML; enum constant names",
			Replay:       "engine",
		}
	})
}

func init() {
	extraSpecs = append(extraSpecs, func(m map[string]*CheckSpec) {
		m["C13"] = &CheckSpec{
			ID: "C13",
			Jobs: func(tier string) []Job {
				var jobs []Job
				bounds := []int{0, 1}
				if tier != "quick" {
					bounds = []int{0, 1, 2}
				}
				for _, h := range []string{"H_C13_initiator", "H_C13_acceptor"} {
					for cause := 0; cause < 6; cause++ {
						for point := 0; point < 5; point++ {
							for _, buf := range []int{0, 1} {
								for _, b := range bounds {
									rots := []int{0}
									if b > 0 {
										rots = []int{0, 1, 3}
									}
									for _, rot := range rots {
										j := J(rootPkg, h, cause, point, buf, b, rot)
										j.MaxSteps = 2_000_000
										jobs = append(jobs, j)
									}
								}
							}
						}
					}
				}
				for cause := 0; cause <= 1; cause++ {
					for _, buf := range []int{0, 1} {
						for _, b := range bounds {
							for _, rot := range []int{0, 1, 2} {
								j := J(rootPkg, "H_C13_listen", cause, buf, b, rot)
								j.MaxSteps = 2_000_000
								jobs = append(jobs, j)
							}
						}
					}
				}
				// the goroutines of an attached session after its connection ended, for several logon histories
				for role := 0; role <= 1; role++ {
					for hist := 0; hist <= 3; hist++ {
						j := J(sessPkg, "H_C13_session", role, hist)
						j.EngineReplay = true
						jobs = append(jobs, j)
					}
				}
				return jobs
			},
			Explanation: "Partial, bounded. The complete connection plumbing - Initiator.Serve (conn.serve + reader goroutine, DefaultHandler.Run, writer loop, context watcher, forwarder, errgroup) Acceptor.serve, and Acceptor.ListenAndServe on an in-memory listener with one accepted connection (local Close, listener failure) - runs as interpreted goroutines on a scripted net.Conn whose Close unblocks a pending Read like a real socket. Termination causes: peer closes (EOF), read error, write error, local Initiator.Close / Acceptor.Close, handler.Stop, the peer stops reading (every Write times out); injected when nothing has been exchanged, after inbound messages were delivered, inside a partially read inbound message, with an outbound message just handed over (an application goroutine is inside SendRaw), and after an inbound frame without MsgType has ended the handler loop; channel buffer sizes 0 and 1. Schedules: the deterministic cooperative one, plus every schedule with at most 1 (thorough: 2) preemptions at channel/select/cancel/go switch points from the moment of the cause (three rotations of the run-queue order). Asserted on every schedule: every goroutine started by the library finishes (a goroutine blocked forever is detected by the engine as a deadlock), the serving call returns, the socket is closed, later SendRaw/Send calls return, the non-initiating side got a disconnect or stopped notification, no goroutine remains. Session level (H_C13_session): after the handler of a connection is stopped, for the histories one logon / logout and second logon / local Stop answered and a further Logon / probe pending, every live timer expires at most once more and then no goroutine started by the session remains and nothing is handed to the outbound queue.",
			Rule:        "case = (side, cause, point, buffer size, preemption bound, run-queue rotation) x schedule",
			Bounds:      map[string]string{"quick": "6 causes x 5 points x buffers {0,1} x 2 sides; preemption bound <= 1 at coarse switch points (tens to hundreds of schedules per case)", "thorough": "preemption bound <= 2 (hundreds to thousands of schedules per case)"},
			Assumptions: append(append([]string{}, commonAssumptions...),
				"goroutines are interpreted with sequentially consistent interleaving; unbuffered channels have exact rendezvous semantics; a goroutine that spins on an always-ready select is descheduled periodically (fairness); in a polling loop only the first two visits of a program point are switch points",
				"the scripted net.Conn stands for a socket: Read blocks until data/EOF/error/Close, Write never blocks (a peer that stops reading is outside the bound)"),
			Outside:      "a session attached to the handler is covered by a separate step (H_C13_session: handler stopped, timers expire once more), not inside the schedule exploration of the plumbing; the settling time includes up to N+max(1,N/20) seconds; the peer that stops reading (blocking Write until the deadline); more than one preemption (quick); preemption at mutex/atomic operations; several simultaneous connections being torn down together",
			Differential: 0,
		}
	})
}
