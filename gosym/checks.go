package main

// The registered checks: which harness jobs decide which property, at which bounds.

const encPkg = modPath + "/fix/encoding"
const rootPkg = modPath
const sessPkg = modPath + "/session"

var commonAssumptions = []string{
	"go/ssa (x/tools v0.29.0) builds faithful SSA for the current working tree; the interpreter implements the 40 instruction kinds the library uses (validated on every run by differential engine-vs-native executions and by native replay of every counterexample)",
	"environment models (listed under environment_models_used) behave as the Go standard library: strconv Itoa/Atoi/FormatUint/ParseUint digit models (validated against strconv by `gosym selftest` in setup), bytes.Index/Equal/Join, fmt.Sprintf for %s/%d/%03s, errors as opaque non-nil values",
	"float64 and time.Time values are opaque: FormatFloat/Time.Format are uninterpreted injective functions with ParseFloat/time.Parse as inverses on their images (value-level float/time semantics are trusted to the standard library)",
	"SMT solver soundness (z3 5.1.0; a sample of queries is re-decided by z3 4.8.12 and cvc5 1.0.3)",
	"all claims are bounded: see coverage.bounds; nothing outside the bounds is claimed",
}

func J(pkg, h string, params ...int) Job { return Job{Pkg: pkg, Harness: h, Params: params} }

// population masks: patterns over the first 30 leaf slots
func patternMasks(quick bool) []int {
	all := 1<<30 - 1
	m := []int{all, 0x15555555, 0x2AAAAAAA, 1, 2, 4, all &^ 1, all &^ 2, all &^ 4}
	if !quick {
		for b := 3; b < 10; b++ {
			m = append(m, 1<<uint(b), all&^(1<<uint(b)))
		}
		m = append(m, 0x0F0F0F0F, 0x33333333, 0x1249249, 0x36DB6DB6, 0)
	}
	return m
}

// small templates for which every subset of leaves is enumerated: template -> number of leaf slots
var smallTemplates = map[int]int{0: 0, 1: 3, 3: 4, 9: 4, 10: 2}

// group templates: template -> nesting depth
var groupTemplates = map[int]int{4: 1, 5: 2, 6: 1, 7: 1, 8: 1, 11: 1, 12: 2, 13: 3}

func cntCombos(depth int, quick bool) [][3]int {
	var r [][3]int
	switch depth {
	case 1:
		for _, c := range []int{0, 1, 2, 3} {
			r = append(r, [3]int{c, 0, 0})
		}
	case 2:
		r = [][3]int{{0, 0, 0}, {1, 1, 0}, {2, 1, 0}, {1, 2, 0}, {2, 2, 0}}
		if !quick {
			r = append(r, [3]int{3, 2, 0}, [3]int{2, 3, 0}, [3]int{1, 0, 0}, [3]int{2, 0, 0})
		}
	case 3:
		r = [][3]int{{1, 1, 1}, {2, 1, 2}, {1, 2, 1}}
		if !quick {
			r = append(r, [3]int{2, 2, 2}, [3]int{1, 1, 0}, [3]int{2, 2, 1})
		}
	}
	return r
}

// shapeJobs enumerates [template, mask, cnt0, cnt1, cnt2, lenSel, route] parameter vectors.
func shapeJobs(pkg, h string, tier string, routes []int, lenSels []int) []Job {
	quick := tier == "quick"
	var jobs []Job
	add := func(t, mask int, c [3]int) {
		for _, ls := range lenSels {
			for _, rt := range routes {
				jobs = append(jobs, J(pkg, h, t, mask, c[0], c[1], c[2], ls, rt))
			}
		}
	}
	for t, n := range smallTemplates {
		for mask := 0; mask < 1<<uint(n); mask++ {
			add(t, mask, [3]int{})
		}
	}
	// template 2 (ten leaves of every type)
	if quick {
		for _, m := range patternMasks(true) {
			add(2, m&1023, [3]int{})
		}
	} else {
		for mask := 0; mask < 1024; mask++ {
			add(2, mask, [3]int{})
		}
	}
	for t, d := range groupTemplates {
		for _, c := range cntCombos(d, quick) {
			for _, m := range patternMasks(quick) {
				add(t, m, c)
			}
		}
	}
	return jobs
}

func lenSels(tier string) []int {
	if tier == "quick" {
		return []int{1, 2, 9}
	}
	return []int{0, 1, 2, 3, 4, 5, 9}
}

func checkSpecs() map[string]*CheckSpec {
	m := map[string]*CheckSpec{}
	m["C01"] = &CheckSpec{
		ID: "C01",
		Jobs: func(tier string) []Job {
			jobs := shapeJobs(encPkg, "H_C01_frame", tier, []int{0, 1, 2}, lenSels(tier))
			// symbolic framing tags / BeginString / MsgType
			for _, p := range [][]int{{1, 1, 2, 2, 7, 1, 2}, {2, 1, 2, 2, 3, 2, 1}, {1, 2, 3, 3, 1, 1, 3}, {3, 3, 1, 1, 2, 2, 2}} {
				jobs = append(jobs, J(encPkg, "H_C01_tags", p...))
			}
			// ballast: value lengths that put BodyLength on 9/10, 99/100, 999/1000 (35=0|58=<v>| => 5+3+len+1)
			for _, bl := range []int{8, 9, 10, 11, 98, 99, 100, 101, 998, 999, 1000, 1001} {
				n := bl - 9
				if n < 1 {
					continue
				}
				jobs = append(jobs, J(encPkg, "H_C01_ballast", n, min(n, 3)))
			}
			jobs = append(jobs, J(encPkg, "H_C01_lowsum", 0), J(encPkg, "H_C01_lowsum", 1))
			return jobs
		},
		Explanation: "Bounded symbolic execution of the real SSA of fix.(*Message).ToBytes and everything it calls, over a catalogue of 14 template shapes (nesting of fields, components, repeating groups up to depth 3, empty/non-empty header, body, trailer), every population mask listed in rule, three population routes, with all value bytes symbolic. The assertion compares the output with an independent oracle written in the harness (prefix/suffix layout, decimal of the measured body length, mod-256 byte sum as three digits); z3 decides it for all values at once.",
		Rule:        "case = (template, population mask, group entry counts, value-length selector, population route) x path; non-trivial = the path condition contains at least one symbolic constraint. Small templates: every subset of leaves; others: pattern masks. Additional jobs: symbolic framing tag digits/BeginString/MsgType, ballast lengths crossing 9/10, 99/100, 999/1000, and reachability witnesses for checksums < 100 and < 10.",
		Bounds: map[string]string{
			"quick":    "14 templates, nesting depth <= 3, <= 3 entries per group, value length 1..3 bytes (ballast up to 992), Int/Uint one sign/digit-count class per job (<= 5 digits) plus 64-bit extremes, framing tags 1..3 digits",
			"thorough": "as quick with value length 1..6, all 1024 populations of the all-types template, more entry-count combinations and masks",
		},
		Assumptions:  commonAssumptions,
		Outside:      "templates outside the catalogue; values longer than the stated lengths; a header that was never set (nil *Component panics in ToBytes - generated types always set it)",
		Differential: 8,
	}
	m["C17"] = &CheckSpec{
		ID: "C17",
		Jobs: func(tier string) []Job {
			jobs := shapeJobs(encPkg, "H_C17_fields", tier, []int{0, 1, 2}, lenSels(tier))
			for _, t := range []int{1, 2, 3, 9} {
				for _, m := range []int{1, 3, 1023} {
					jobs = append(jobs, J(encPkg, "H_C17_unset", t, m, 0, 0, 0, 1, 0))
				}
			}
			return jobs
		},
		Explanation: "Bounded symbolic execution of Message.ToBytes over the shape catalogue. The harness builds, independently of the library, the list of (tag, canonical text) of exactly the populated leaves in template order with a count field before each non-empty group, frames it, and asserts byte equality with the library output for all symbolic values. Population routes: Set on the template value, replacement by the public constructors (NewString/NewInt/NewUint/NewFloat/NewTime/NewRaw), FromBytes; Set(nil) un-population.",
		Rule:        "case = (template, population mask, entry counts, length selector, route) x path; non-trivial = path condition non-empty",
		Bounds: map[string]string{
			"quick":    "as C01 quick",
			"thorough": "as C01 thorough",
		},
		Assumptions:  commonAssumptions,
		Outside:      "templates outside the catalogue",
		Differential: 8,
	}
	return m
}
