package main

// The registered checks: which harness jobs decide which property, at which bounds.

const encPkg = modPath + "/fix/encoding"
const rootPkg = modPath
const sessPkg = modPath + "/session"

var commonAssumptions = []string{
	"go/ssa (x/tools v0.29.0) builds faithful SSA for the current working tree; the interpreter implements the 40 instruction kinds the library uses (validated on every run by differential engine-vs-native executions and by native replay of every counterexample)",
	"environment models (listed under environment_models_used) behave as the Go standard library: strconv Itoa/Atoi/FormatUint/ParseUint digit models (validated against strconv by `gosym selftest` in setup), bytes.Index/Equal/Join, fmt.Sprintf for %s/%d/%03s, errors as opaque non-nil values",
	"float64 and time.Time values are opaque: FormatFloat/Time.Format are uninterpreted injective functions with ParseFloat/time.Parse as inverses on their images (value-level float/time semantics are trusted to the standard library)",
	"SMT solver soundness (z3 5.1.0; a sample of queries is re-decided by z3 4.8.12 and cvc5 1.0.3)",
	"all claims are bounded: see coverage.bounds; nothing outside the bounds is claimed",
}

func J(pkg, h string, params ...int) Job { return Job{Pkg: pkg, Harness: h, Params: params} }

// population masks: patterns over the first 30 leaf slots
func patternMasks(quick bool) []int {
	all := 1<<30 - 1
	m := []int{all, 0x15555555, 0x2AAAAAAA, 1, 2, 4, all &^ 1, all &^ 2, all &^ 4}
	if !quick {
		for b := 3; b < 10; b++ {
			m = append(m, 1<<uint(b), all&^(1<<uint(b)))
		}
		m = append(m, 0x0F0F0F0F, 0x33333333, 0x1249249, 0x36DB6DB6, 0)
	}
	return m
}

// small templates for which every subset of leaves is enumerated: template -> number of leaf slots
var smallTemplates = map[int]int{0: 0, 1: 3, 3: 4, 9: 4, 10: 2}

// group templates: template -> nesting depth
var groupTemplates = map[int]int{4: 1, 5: 2, 6: 1, 7: 1, 8: 1, 11: 1, 12: 2, 13: 3}

func cntCombos(depth int, quick bool) [][3]int {
	var r [][3]int
	switch depth {
	case 1:
		for _, c := range []int{0, 1, 2, 3} {
			r = append(r, [3]int{c, 0, 0})
		}
	case 2:
		r = [][3]int{{0, 0, 0}, {1, 1, 0}, {2, 1, 0}, {1, 2, 0}, {2, 2, 0}}
		if !quick {
			r = append(r, [3]int{3, 2, 0}, [3]int{2, 3, 0}, [3]int{1, 0, 0}, [3]int{2, 0, 0})
		}
	case 3:
		r = [][3]int{{1, 1, 1}, {2, 1, 2}, {1, 2, 1}}
		if !quick {
			r = append(r, [3]int{2, 2, 2}, [3]int{1, 1, 0}, [3]int{2, 2, 1})
		}
	}
	return r
}

// shapeJobs enumerates [template, mask, cnt0, cnt1, cnt2, lenSel, route] parameter vectors.
func shapeJobs(pkg, h string, tier string, routes []int, lenSels []int) []Job {
	quick := tier == "quick"
	var jobs []Job
	add := func(t, mask int, c [3]int) {
		for _, ls := range lenSels {
			for _, rt := range routes {
				jobs = append(jobs, J(pkg, h, t, mask, c[0], c[1], c[2], ls, rt))
			}
		}
	}
	for t, n := range smallTemplates {
		for mask := 0; mask < 1<<uint(n); mask++ {
			add(t, mask, [3]int{})
		}
	}
	// template 2 (ten leaves of every type)
	if quick {
		for _, m := range patternMasks(true) {
			add(2, m&1023, [3]int{})
		}
	} else {
		for mask := 0; mask < 1024; mask++ {
			add(2, mask, [3]int{})
		}
	}
	for t, d := range groupTemplates {
		for _, c := range cntCombos(d, quick) {
			for _, m := range patternMasks(quick) {
				add(t, m, c)
			}
		}
	}
	return jobs
}

func lenSels(tier string) []int {
	if tier == "quick" {
		return []int{1, 2, 9}
	}
	return []int{0, 1, 2, 3, 4, 5, 9}
}

var extraSpecs []func(map[string]*CheckSpec)

func checkSpecs() map[string]*CheckSpec {
	m := map[string]*CheckSpec{}
	defer func() {
		for _, f := range extraSpecs {
			f(m)
		}
	}()
	m["C01"] = &CheckSpec{
		ID: "C01",
		Jobs: func(tier string) []Job {
			jobs := shapeJobs(encPkg, "H_C01_frame", tier, []int{0, 1, 2}, lenSels(tier))
			// symbolic framing tags / BeginString / MsgType
			for _, p := range [][]int{{1, 1, 2, 2, 7, 1, 2}, {2, 1, 2, 2, 3, 2, 1}, {1, 2, 3, 3, 1, 1, 3}, {3, 3, 1, 1, 2, 2, 2}} {
				jobs = append(jobs, J(encPkg, "H_C01_tags", p...))
			}
			// ballast: value lengths that put BodyLength on 9/10, 99/100, 999/1000 (35=0|58=<v>| => 5+3+len+1)
			for _, bl := range []int{8, 9, 10, 11, 98, 99, 100, 101, 998, 999, 1000, 1001} {
				n := bl - 9
				if n < 1 {
					continue
				}
				jobs = append(jobs, J(encPkg, "H_C01_ballast", n, min(n, 3)))
			}
			jobs = append(jobs, J(encPkg, "H_C01_lowsum", 0), J(encPkg, "H_C01_lowsum", 1))
			return jobs
		},
		Explanation: "Bounded symbolic execution of the real SSA of fix.(*Message).ToBytes and everything it calls, over a catalogue of 14 template shapes (nesting of fields, components, repeating groups up to depth 3, empty/non-empty header, body, trailer), every population mask listed in rule, three population routes, with all value bytes symbolic. The assertion compares the output with an independent oracle written in the harness (prefix/suffix layout, decimal of the measured body length, mod-256 byte sum as three digits); z3 decides it for all values at once.",
		Rule:        "case = (template, population mask, group entry counts, value-length selector, population route) x path; non-trivial = the path condition contains at least one symbolic constraint. Small templates: every subset of leaves; others: pattern masks. Additional jobs: symbolic framing tag digits/BeginString/MsgType, ballast lengths crossing 9/10, 99/100, 999/1000, and reachability witnesses for checksums < 100 and < 10.",
		Bounds: map[string]string{
			"quick":    "14 templates, nesting depth <= 3, <= 3 entries per group, value length 1..3 bytes (ballast up to 992), Int/Uint one sign/digit-count class per job (<= 5 digits) plus 64-bit extremes, framing tags 1..3 digits",
			"thorough": "as quick with value length 1..6, all 1024 populations of the all-types template, more entry-count combinations and masks",
		},
		Assumptions:  commonAssumptions,
		Outside:      "templates outside the catalogue; values longer than the stated lengths; a header that was never set (nil *Component panics in ToBytes - generated types always set it)",
		Differential: 8,
	}
	m["C17"] = &CheckSpec{
		ID: "C17",
		Jobs: func(tier string) []Job {
			jobs := shapeJobs(encPkg, "H_C17_fields", tier, []int{0, 1, 2}, lenSels(tier))
			for _, t := range []int{1, 2, 3, 9} {
				for _, m := range []int{1, 3, 1023} {
					jobs = append(jobs, J(encPkg, "H_C17_unset", t, m, 0, 0, 0, 1, 0))
				}
			}
			return jobs
		},
		Explanation: "Bounded symbolic execution of Message.ToBytes over the shape catalogue. The harness builds, independently of the library, the list of (tag, canonical text) of exactly the populated leaves in template order with a count field before each non-empty group, frames it, and asserts byte equality with the library output for all symbolic values. Population routes: Set on the template value, replacement by the public constructors (NewString/NewInt/NewUint/NewFloat/NewTime/NewRaw), FromBytes; Set(nil) un-population.",
		Rule:        "case = (template, population mask, entry counts, length selector, route) x path; non-trivial = path condition non-empty",
		Bounds: map[string]string{
			"quick":    "as C01 quick",
			"thorough": "as C01 thorough",
		},
		Assumptions:  commonAssumptions,
		Outside:      "templates outside the catalogue",
		Differential: 8,
	}
	return m
}

func init() {
	extraSpecs = append(extraSpecs, func(m map[string]*CheckSpec) {
		m["C02"] = &CheckSpec{
			ID: "C02",
			Jobs: func(tier string) []Job {
				var jobs []Job
				for _, strict := range []int{0, 1} {
					for _, j := range shapeJobs(encPkg, "H_C02_roundtrip", tier, []int{0, 1}, lenSels(tier)) {
						j.Params = append(j.Params, strict)
						jobs = append(jobs, j)
					}
				}
				jobs = append(jobs, advJobs("H_C02_roundtrip", tier, true)...)
				return jobs
			},
			Explanation: "Bounded symbolic execution of serialize -> encoding.Unmarshal -> serialize on the real SSA. Values are symbolic (strings: arbitrary non-SOH bytes, so '=', digits and text resembling other fields are inside the domain and the solver looks for contents that change the parse). Asserted: no error; every leaf has the same typed value (dynamic Go type included); unpopulated leaves stay null; every group has the same number of entries in the same order; re-serialization is byte-identical. Preconditions as in the property: unique tags, first member of every entry populated, no empty value.",
			Rule:        "case = (template, population mask, entry counts, length selector, route, strict flag) x path",
			Bounds:      map[string]string{"quick": "22 templates (14 generic + 8 with adversarial tag sets), depth <= 3, <= 3 entries, value length 1..3 (adversarial templates 1..6), ints one digit class per job <= 5 digits + 64-bit extremes", "thorough": "value length 1..6 everywhere, all 1024 populations of the all-types template"},
			Assumptions: commonAssumptions,
			Outside:     "float64/time value semantics (uninterpreted, round-trip axiom); ints beyond 5 digits except the extremes; templates outside the catalogue",
			Differential: 8,
		}
		m["C18"] = &CheckSpec{
			ID: "C18",
			Jobs: func(tier string) []Job {
				jobs := advJobs("H_C02_roundtrip", tier, true)
				jobs = append(jobs, advJobs("H_C18_vbt", tier, false)...)
				for _, j := range shapeJobs(encPkg, "H_C18_vbt", tier, []int{0}, []int{1}) {
					jobs = append(jobs, j)
				}
				return jobs
			},
			Explanation: "Round-trip (as C02) and fix.ValueByTag oracles on templates built to be adversarial for substring search: tags that extend or truncate a template tag by one digit (1146/46/14 next to 146, 134/4 next to 34, 135/5 next to 35, 110/0 next to 10, 155/5 next to the first member 55, 1711 next to a nested count 711), String leaves of 2..6 unconstrained bytes before, inside and after groups (the solver itself places 'tag=' inside values when that can change the parse), with the genuine field/group present and absent.",
			Rule:        "case = (adversarial template, population mask, entry counts, length selector) x path",
			Bounds:      map[string]string{"quick": "5 adversarial templates, value length 2..6, <= 3 entries", "thorough": "more masks and entry-count combinations"},
			Assumptions: commonAssumptions,
			Outside:     "message boundary detection by Conn.runReader with values containing '10=' is checked under C04; raw sequence-number extraction in the session under C16",
			Differential: 6,
		}
		m["C11"] = &CheckSpec{
			ID: "C11",
			Jobs: func(tier string) []Job {
				quick := tier == "quick"
				var jobs []Job
				maxRaw, maxFramed, maxW := 8, 6, 3
				if !quick {
					maxRaw, maxFramed, maxW = 11, 9, 5
				}
				for _, t := range []int{14, 15, 16} {
					for n := 0; n <= maxRaw; n++ {
						jobs = append(jobs, J(encPkg, "H_C11_raw", n, t, n%2))
					}
					for n := 0; n <= maxFramed; n++ {
						jobs = append(jobs, J(encPkg, "H_C11_framed", n, t, n%2))
					}
				}
				for n := 0; n <= 8; n++ {
					for k := 0; k <= 3; k++ {
						jobs = append(jobs, J(encPkg, "H_C11_vbt", n, k))
					}
				}
				// windows over valid nested shapes (concrete values, symbolic window + checksum text)
				type sh struct {
					t, nf int
					c     [3]int
				}
				shapes := []sh{{14, 6, [3]int{2, 0, 0}}, {15, 10, [3]int{2, 1, 0}}, {15, 12, [3]int{1, 2, 0}}, {16, 9, [3]int{2, 1, 0}}, {5, 10, [3]int{2, 1, 0}}, {13, 10, [3]int{1, 1, 1}}, {12, 10, [3]int{1, 1, 0}}, {8, 6, [3]int{1, 0, 0}}}
				all := 1<<30 - 1
				masks := []int{all, all &^ 4, all &^ 2, 0x15555555}
				for _, s := range shapes {
					for _, mk := range masks {
						for f := 0; f < s.nf; f++ {
							for w := 1; w <= maxW; w++ {
								for mode := 0; mode <= 1; mode++ {
									if mode == 1 && w > 2 && quick {
										continue
									}
									jobs = append(jobs, J(encPkg, "H_C11_window", s.t, mk, s.c[0], s.c[1], s.c[2], 0, 3, (f+w)%2, f, w, mode))
								}
							}
						}
					}
				}
				return jobs
			},
			Explanation: "Bounded symbolic execution of encoding.Unmarshal (strict and non-strict) and fix.ValueByTag on (a) completely symbolic byte strings of every length 0..n, (b) correctly framed messages whose body is n completely symbolic bytes and whose checksum text is symbolic, so the integrity check can pass and field/group parsing is reached with adversarial content, (c) valid serialized nested shapes with a window of w symbolic bytes replacing one field or filling one field boundary. Every Go runtime panic on any feasible path is a violation; the per-path instruction budget is the unwinding assertion (termination).",
			Rule:        "case = (input class, length / window position and width, template) x path",
			Bounds:      map[string]string{"quick": "raw n<=8, framed body n<=6, ValueByTag msg<=8 tag<=3 bytes, windows w<=3 over 8 nested shapes x 4 populations, templates with 1-digit tags (flat+group, group-in-group, component-in-group) and 5 catalogue shapes", "thorough": "raw n<=11, framed n<=9, windows w<=5"},
			Assumptions: commonAssumptions,
			Outside:     "longer arbitrary regions; the session's inbound closures are exercised with damaged messages under C16",
			Differential: 6,
		}
		m["C03"] = &CheckSpec{
			ID: "C03",
			Jobs: func(tier string) []Job {
				quick := tier == "quick"
				var jobs []Job
				type sh struct {
					t, mask, ls, n int
					c          [3]int
				}
				shapes := []sh{{1, 7, 3, 46, [3]int{}}, {1, 6, 1, 36, [3]int{}}, {4, 1<<30 - 1, 0, 60, [3]int{1, 0, 0}}}
				if !quick {
					shapes = append(shapes, sh{9, 15, 1, 50, [3]int{}}, sh{5, 1<<30 - 1, 0, 70, [3]int{1, 1, 0}}, sh{1, 7, 5, 60, [3]int{}})
				}
				for _, s := range shapes {
					for kind := 0; kind <= 3; kind++ {
						for pos := 0; pos < s.n; pos++ {
							jobs = append(jobs, J(encPkg, "H_C03_damage", s.t, s.mask, s.c[0], s.c[1], s.c[2], s.ls, 0, pos%2, kind, pos))
						}
					}
				}
				maxN := 7
				if !quick {
					maxN = 9
				}
				for n := 0; n <= maxN; n++ {
					for _, t := range []int{14, 15} {
						jobs = append(jobs, J(encPkg, "H_C03_accept", n, t, n%2, 1))
						if n >= 6 {
							jobs = append(jobs, J(encPkg, "H_C03_accept", n, t, n%2, 2))
						}
					}
				}
				return jobs
			},
			Explanation: "Bounded symbolic execution of encoding.Unmarshal. (A) damage neighbourhood: for a serialized shape with symbolic values and every concrete position: substitution by a symbolic byte different from the original (all 255 values in one query), insertion of a symbolic byte, deletion, truncation; asserted: an error is returned (strict flag alternates). (B) soundness of acceptance: 8=F|9=LL|X|10=ccc| with LL, X and ccc symbolic; whenever Unmarshal returns nil an independent oracle must find LL equal to the measured length and ccc equal to the recomputed checksum.",
			Rule:        "case = (shape, damage kind, position) x path, and (length, template) x path for (B)",
			Bounds:      map[string]string{"quick": "3 shapes (<= 60 bytes, including a 3-byte value next to a tag one byte away from the CheckSum tag), all positions x 4 damage kinds; acceptance oracle with body <= 7 bytes", "thorough": "6 shapes (<= 70 bytes), acceptance body <= 9 bytes"},
			Assumptions: commonAssumptions,
			Outside:     "multi-byte damage; messages longer than the stated shapes",
		}
	})
}

// advJobs: the adversarial-tag templates (17..21).
func advJobs(h string, tier string, withStrict bool) []Job {
	quick := tier == "quick"
	var jobs []Job
	all := 1<<30 - 1
	masks := []int{all, all &^ 1, all &^ 2, all &^ 4, 1, 2, 4, 0x15555555, 0x2AAAAAAA}
	if !quick {
		masks = append(masks, all&^8, all&^16, 8, 16, 0x33333333, 3, 5, 6)
	}
	cnts := map[int][][3]int{17: {{0, 0, 0}, {1, 0, 0}, {2, 0, 0}}, 18: {{0, 0, 0}}, 19: {{0, 0, 0}, {1, 0, 0}, {2, 0, 0}, {3, 0, 0}}, 20: {{0, 0, 0}, {1, 1, 0}, {2, 1, 0}, {2, 2, 0}, {1, 0, 0}}, 21: {{0, 0, 0}, {1, 0, 0}, {2, 0, 0}}}
	ls := []int{4, 5}
	if !quick {
		ls = []int{1, 3, 4, 5}
	}
	for t := 17; t <= 21; t++ {
		for _, c := range cnts[t] {
			for _, mk := range masks {
				for _, l := range ls {
					p := []int{t, mk, c[0], c[1], c[2], l, 0}
					if withStrict {
						p = append(p, (mk+l)%2)
					}
					jobs = append(jobs, Job{Pkg: encPkg, Harness: h, Params: p})
				}
			}
		}
	}
	return jobs
}
