package main

// Check driver: builds the job list of a property, farms it out to worker processes, replays
// counterexamples against the real build, applies the known-findings file and writes evidence.

import (
	"bufio"
	"encoding/json"
	"fmt"
	"os"
	"os/exec"
	"path/filepath"
	"regexp"
	"sort"
	"strings"
	"sync"
	"time"
)

type CheckSpec struct {
	ID           string
	Jobs         func(tier string) []Job
	Explanation  string
	Rule         string
	Bounds       map[string]string // tier -> bound statement
	Assumptions  []string
	Outside      string
	Replay       string                                                           // "native" (default) | "engine"
	Extra        func(tier string, ev *Evidence) (violations []string, err error) // non-engine side conditions
	Lockset      bool
	NoEngineJobs bool // the check's work happens in Extra (C12)
	Differential int  // number of sample vectors run through engine-concrete and native and compared
}

type Evidence struct {
	PropertyID  string                 `json:"property_id"`
	Tier        string                 `json:"tier"`
	Seed        int                    `json:"seed"`
	Level       string                 `json:"level"`
	Coverage    map[string]interface{} `json:"coverage"`
	Assumptions []string               `json:"assumptions"`
	WallS       float64                `json:"wall_s"`
	Violations  int                    `json:"violations"`
}

type worker struct {
	cmd *exec.Cmd
	in  *bufio.Writer
	out *bufio.Scanner
}

func startWorker() (*worker, error) {
	cmd := exec.Command(os.Args[0], "worker")
	cmd.Env = os.Environ()
	cmd.Stderr = os.Stderr
	in, _ := cmd.StdinPipe()
	out, _ := cmd.StdoutPipe()
	if err := cmd.Start(); err != nil {
		return nil, err
	}
	w := &worker{cmd: cmd, in: bufio.NewWriter(in), out: bufio.NewScanner(out)}
	w.out.Buffer(make([]byte, 1<<20), 1<<28)
	if !w.out.Scan() {
		return nil, fmt.Errorf("worker died at start")
	}
	var hello map[string]string
	json.Unmarshal(w.out.Bytes(), &hello)
	if hello["fatal"] != "" {
		return nil, fmt.Errorf("worker: %s", hello["fatal"])
	}
	return w, nil
}

func (w *worker) run(j Job) (*JobResult, error) {
	b, _ := json.Marshal(j)
	w.in.Write(b)
	w.in.WriteByte('\n')
	w.in.Flush()
	if !w.out.Scan() {
		return nil, fmt.Errorf("worker died on job %s %v", j.Harness, j.Params)
	}
	var r JobResult
	if err := json.Unmarshal(w.out.Bytes(), &r); err != nil {
		return nil, err
	}
	return &r, nil
}

func (w *worker) stop() {
	w.in.Flush()
	if c, ok := w.cmd.Stdin.(interface{ Close() error }); ok {
		c.Close()
	}
	w.cmd.Process.Kill()
	w.cmd.Wait()
}

// maxViolPerCheck: once this many counterexamples were found, remaining jobs are skipped.
const maxViolPerCheck = 48

func runJobs(jobs []Job, nworkers int) ([]*JobResult, error) {
	if nworkers > len(jobs) {
		nworkers = len(jobs)
	}
	if nworkers < 1 {
		nworkers = 1
	}
	results := make([]*JobResult, len(jobs))
	var mu sync.Mutex
	next := 0
	nviolTotal := 0
	var firstErr error
	var wg sync.WaitGroup
	for i := 0; i < nworkers; i++ {
		wg.Add(1)
		go func() {
			defer wg.Done()
			w, err := startWorker()
			if err != nil {
				mu.Lock()
				if firstErr == nil {
					firstErr = err
				}
				mu.Unlock()
				return
			}
			defer w.stop()
			for {
				mu.Lock()
				if next >= len(jobs) || firstErr != nil {
					mu.Unlock()
					return
				}
				k := next
				next++
				enough := nviolTotal >= maxViolPerCheck
				mu.Unlock()
				if enough {
					// plenty of counterexamples already: the remaining cases are not explored
					// (only ever happens on a tree that violates the property)
					results[k] = &JobResult{ID: jobs[k].ID, Harness: jobs[k].Harness, Params: jobs[k].Params, Skipped: true, Ends: map[string]int{}, Reached: map[string]int{}}
					continue
				}
				r, err := w.run(jobs[k])
				if r != nil {
					mu.Lock()
					nviolTotal += len(r.Violations)
					mu.Unlock()
				}
				if err != nil {
					// restart once; record as engine error
					results[k] = &JobResult{ID: jobs[k].ID, Harness: jobs[k].Harness, Params: jobs[k].Params, EngineErr: err.Error()}
					w.stop()
					w, err = startWorker()
					if err != nil {
						mu.Lock()
						firstErr = err
						mu.Unlock()
						return
					}
					continue
				}
				results[k] = r
			}
		}()
	}
	wg.Wait()
	return results, firstErr
}

// ---- native replay ----

type nativeBuild struct {
	dir  string
	bins map[string]string // package import path -> test binary
	errs map[string]string
	mu   sync.Mutex
}

var harnessFuncRe = regexp.MustCompile(`(?m)^func (H_[A-Za-z0-9_]+)\(\)`)

func newNativeBuild() *nativeBuild {
	d, err := os.MkdirTemp("", "gosym-replay-")
	if err != nil {
		panic(err)
	}
	return &nativeBuild{dir: d, bins: map[string]string{}, errs: map[string]string{}}
}

func (nb *nativeBuild) cleanup() { os.RemoveAll(nb.dir) }

// binFor builds (once) the native test binary of the package that holds the harness.
func (nb *nativeBuild) binFor(pkg string) (string, error) {
	nb.mu.Lock()
	defer nb.mu.Unlock()
	if b, ok := nb.bins[pkg]; ok {
		return b, nil
	}
	if e, ok := nb.errs[pkg]; ok {
		return "", fmt.Errorf("%s", e)
	}
	rel := strings.TrimPrefix(strings.TrimPrefix(pkg, modPath), "/")
	if rel == "" {
		rel = "."
	}
	ov := map[string]string{}
	pkgName := ""
	var names []string
	for virt, real := range overlayFiles() {
		ov[virt] = real
		d, _ := filepath.Rel(repoDir, filepath.Dir(virt))
		if d == rel {
			src, _ := os.ReadFile(real)
			for _, m := range harnessFuncRe.FindAllStringSubmatch(string(src), -1) {
				names = append(names, m[1])
			}
			if pkgName == "" {
				if m := regexp.MustCompile(`(?m)^package (\w+)`).FindStringSubmatch(string(src)); m != nil {
					pkgName = m[1]
				}
			}
		}
	}
	sort.Strings(names)
	var sb strings.Builder
	fmt.Fprintf(&sb, "package %s\n\nimport (\n\t\"fmt\"\n\t\"os\"\n\t\"testing\"\n)\n\nvar verifHarnesses = map[string]func(){\n", pkgName)
	for _, n := range names {
		fmt.Fprintf(&sb, "\t%q: %s,\n", n, n)
	}
	sb.WriteString("}\n\nfunc TestVerifReplay(t *testing.T) {\n\tf := verifHarnesses[os.Getenv(\"VERIF_HARNESS\")]\n\tif f == nil {\n\t\tt.Fatal(\"no such harness\")\n\t}\n\tf()\n\tfmt.Println(\"VERIF-REPLAY: completed\")\n}\n")
	safe := strings.ReplaceAll(strings.Trim(rel, "./"), "/", "_")
	if safe == "" {
		safe = "root"
	}
	tf := filepath.Join(nb.dir, safe+"_replay_test.go")
	os.WriteFile(tf, []byte(sb.String()), 0644)
	ov[filepath.Join(repoDir, rel, "zz_verif_replay_test.go")] = tf
	ovj, _ := json.Marshal(map[string]interface{}{"Replace": ov})
	of := filepath.Join(nb.dir, safe+"_overlay.json")
	os.WriteFile(of, ovj, 0644)
	bin := filepath.Join(nb.dir, safe+".test")
	target := "./" + rel
	if rel == "." {
		target = "."
	}
	cmd := exec.Command("go", "test", "-c", "-vet=off", "-overlay", of, "-o", bin, target)
	cmd.Dir = repoDir
	cmd.Env = append(os.Environ(), "GOFLAGS=-mod=mod", "GOPROXY=off", "GOSUMDB=off", "GOTOOLCHAIN=local")
	out, err := cmd.CombinedOutput()
	if err != nil {
		nb.errs[pkg] = "native build failed: " + string(out)
		return "", fmt.Errorf("%s", nb.errs[pkg])
	}
	nb.bins[pkg] = bin
	return bin, nil
}

type replayOutcome struct {
	Status string // "assert-failed" | "panic" | "completed" | "assume-failed" | "timeout" | "error"
	Detail string
	Obs    []observation
}

func vecString(v []uint64) string {
	s := make([]string, len(v))
	for i, x := range v {
		s[i] = fmt.Sprint(x)
	}
	return strings.Join(s, ",")
}
func intsString(v []int) string {
	s := make([]string, len(v))
	for i, x := range v {
		s[i] = fmt.Sprint(x)
	}
	return strings.Join(s, ",")
}

func (nb *nativeBuild) replay(pkg, harness string, params []int, vec []uint64) replayOutcome {
	bin, err := nb.binFor(pkg)
	if err != nil {
		return replayOutcome{Status: "error", Detail: err.Error()}
	}
	cmd := exec.Command(bin, "-test.run", "^TestVerifReplay$", "-test.count=1", "-test.timeout=20s")
	cmd.Dir = nb.dir
	cmd.Env = append(os.Environ(), "VERIF_HARNESS="+harness, "VERIF_PARAMS="+intsString(params), "VERIF_VECTOR="+vecString(vec))
	done := make(chan struct{})
	var out []byte
	go func() { out, err = cmd.CombinedOutput(); close(done) }()
	select {
	case <-done:
	case <-time.After(40 * time.Second):
		cmd.Process.Kill()
		<-done
		return replayOutcome{Status: "timeout", Detail: "native replay exceeded 90s (hang)"}
	}
	txt := string(out)
	var obs []observation
	for _, l := range strings.Split(txt, "\n") {
		if strings.HasPrefix(l, "VERIF-OBSERVE: ") {
			f := strings.Fields(l[len("VERIF-OBSERVE: "):])
			if len(f) == 2 {
				obs = append(obs, observation{f[0], f[1]})
			} else if len(f) == 1 {
				obs = append(obs, observation{f[0], ""})
			}
		}
	}
	switch {
	case strings.Contains(txt, "VERIF-REPLAY: ASSERT-FAILED"):
		i := strings.Index(txt, "VERIF-REPLAY: ASSERT-FAILED")
		l := txt[i:]
		if j := strings.IndexByte(l, '\n'); j > 0 {
			l = l[:j]
		}
		return replayOutcome{Status: "assert-failed", Detail: l, Obs: obs}
	case strings.Contains(txt, "VERIF-REPLAY: assume-failed"):
		return replayOutcome{Status: "assume-failed", Obs: obs}
	case strings.Contains(txt, "panic:") || strings.Contains(txt, "fatal error:"):
		i := strings.Index(txt, "panic:")
		if i < 0 {
			i = strings.Index(txt, "fatal error:")
		}
		l := txt[i:]
		if j := strings.IndexByte(l, '\n'); j > 0 {
			l = l[:j]
		}
		if strings.Contains(txt, "test timed out") {
			return replayOutcome{Status: "timeout", Detail: "test timed out (hang)", Obs: obs}
		}
		return replayOutcome{Status: "panic", Detail: l, Obs: obs}
	case strings.Contains(txt, "VERIF-REPLAY: completed"):
		return replayOutcome{Status: "completed", Obs: obs}
	}
	return replayOutcome{Status: "error", Detail: truncate(txt, 400)}
}

func truncate(s string, n int) string {
	if len(s) > n {
		return s[:n] + "..."
	}
	return s
}

// ---- known findings ----

type knownFinding struct {
	kind     string // "known" | "fixed"
	property string
	match    string // substring matched against "<harness> <class> <msg>"
	text     string
}

func loadKnown() []knownFinding {
	var r []knownFinding
	b, err := os.ReadFile(filepath.Join(verifDir, "known_findings.txt"))
	if err != nil {
		return nil
	}
	for _, l := range strings.Split(string(b), "\n") {
		l = strings.TrimSpace(l)
		if l == "" || strings.HasPrefix(l, "#") {
			continue
		}
		k := knownFinding{text: l}
		switch {
		case strings.HasPrefix(l, "known:"):
			k.kind = "known"
		case strings.HasPrefix(l, "fixed:"):
			k.kind = "fixed"
		default:
			continue
		}
		for _, f := range strings.Fields(l) {
			if strings.HasPrefix(f, "property=") {
				k.property = f[len("property="):]
			}
		}
		if i := strings.Index(l, "match="); i >= 0 {
			m := l[i+len("match="):]
			if strings.HasPrefix(m, "\"") {
				if j := strings.Index(m[1:], "\""); j >= 0 {
					m = m[1 : 1+j]
				}
			} else if j := strings.IndexByte(m, ' '); j >= 0 {
				m = m[:j]
			}
			k.match = m
		}
		r = append(r, k)
	}
	return r
}

// ---- the check itself ----

func tierFromArgs(args []string) (string, []string) {
	tier := os.Getenv("VERIF_TIER")
	var rest []string
	for i := 0; i < len(args); i++ {
		switch {
		case args[i] == "--tier" && i+1 < len(args):
			tier = args[i+1]
			i++
		case strings.HasPrefix(args[i], "--tier="):
			tier = args[i][7:]
		default:
			rest = append(rest, args[i])
		}
	}
	if tier != "thorough" {
		tier = "quick"
	}
	return tier, rest
}

func checkMain(args []string) int {
	tier, rest := tierFromArgs(args)
	if len(rest) < 1 {
		usage()
	}
	id := rest[0]
	spec, ok := checkSpecs()[id]
	if !ok {
		fmt.Fprintln(os.Stderr, "no check registered for", id)
		return 2
	}
	return runCheck(spec, tier)
}

type confirmed struct {
	Harness string
	Pkg     string
	V       Violation
	Params  []int
	Outcome replayOutcome
	Replay  string
	Known   bool
}

func runCheck(spec *CheckSpec, tier string) int {
	t0 := time.Now()
	seed := 0
	fmt.Sscan(os.Getenv("VERIF_SEED"), &seed)
	evPath := filepath.Join(outDir(), "evidence", spec.ID+".json")
	os.MkdirAll(filepath.Dir(evPath), 0755)
	os.Remove(evPath)

	jobs := spec.Jobs(tier)
	for i := range jobs {
		jobs[i].ID = i
		jobs[i].WantFuncs = i%17 == 0
		if jobs[i].Cross == 0 {
			jobs[i].Cross = 97
		}
		if spec.Lockset {
			jobs[i].Lockset = true
		}
	}
	nw := 16
	if s := os.Getenv("GOSYM_WORKERS"); s != "" {
		fmt.Sscan(s, &nw)
	}
	nb := newNativeBuild()
	defer nb.cleanup()
	// build the native binaries in the background (needed for differential validation and replay)
	pkgsNeeded := map[string]bool{}
	for _, j := range jobs {
		pkgsNeeded[j.Pkg] = true
	}
	var bgWG sync.WaitGroup
	if spec.Replay != "engine" {
		for p := range pkgsNeeded {
			bgWG.Add(1)
			go func(p string) { defer bgWG.Done(); nb.binFor(p) }(p)
		}
	}
	var results []*JobResult
	var err error
	if len(jobs) > 0 {
		results, err = runJobs(jobs, nw)
	}
	if err != nil {
		fmt.Println("ERROR: engine could not run:", err)
		bgWG.Wait()
		return 2
	}
	bgWG.Wait()

	// aggregate
	agg := struct {
		paths, nontriv, asserts, discharged, trivial, inconcl, queries, hits, steps, cross, crossBad int
		solverS, maxQ                                                                                float64
		ends, reached                                                                                map[string]int
		funcs, stubs                                                                                 map[string]bool
		engineErrs                                                                                   []string
		truncated                                                                                    int
		vacuous, skipped                                                                             int
		inconclJobs                                                                                  []string
		samples                                                                                      []interface{}
		perHarness                                                                                   map[string]int
	}{ends: map[string]int{}, reached: map[string]int{}, funcs: map[string]bool{}, stubs: map[string]bool{}, perHarness: map[string]int{}}
	type rawViol struct {
		job Job
		v   Violation
	}
	var raws []rawViol
	candSeen := map[string]bool{}
	var cands []string
	for i, r := range results {
		if r == nil {
			agg.engineErrs = append(agg.engineErrs, fmt.Sprintf("job %d: no result", i))
			continue
		}
		agg.paths += r.Paths
		agg.nontriv += r.Nontrivial
		agg.asserts += r.Asserts
		agg.discharged += r.Discharged
		agg.trivial += r.Trivial
		agg.inconcl += r.Inconclusive
		agg.queries += r.Queries
		agg.hits += r.ModelHits
		agg.steps += r.Steps
		agg.cross += r.CrossChecked
		agg.crossBad += r.CrossDisagree
		agg.solverS += r.SolverS
		if r.MaxQueryS > agg.maxQ {
			agg.maxQ = r.MaxQueryS
		}
		for k, v := range r.Ends {
			agg.ends[k] += v
		}
		for k, v := range r.Reached {
			agg.reached[k] += v
		}
		for _, f := range r.Funcs {
			agg.funcs[f] = true
		}
		for _, f := range r.Stubs {
			agg.stubs[f] = true
		}
		if r.EngineErr != "" {
			agg.engineErrs = append(agg.engineErrs, fmt.Sprintf("%s%v: %s", r.Harness, r.Params, r.EngineErr))
		}
		if r.Inconclusive > 0 {
			agg.inconclJobs = append(agg.inconclJobs, fmt.Sprintf("%s%v (%d)", r.Harness, r.Params, r.Inconclusive))
		}
		if r.Truncated && len(r.Violations) == 0 {
			agg.truncated++
		}
		if r.Skipped {
			agg.skipped++
			continue
		}
		if r.Ends["ok"] == 0 && len(r.Violations) == 0 && r.EngineErr == "" {
			agg.vacuous++
		}
		agg.perHarness[r.Harness] += r.Ends["ok"]
		if r.Sample != "" && len(agg.samples) < 6 && i%(1+len(results)/6) == 0 {
			agg.samples = append(agg.samples, map[string]interface{}{"harness": r.Harness, "params": r.Params, "paths": r.Paths, "example_path": r.Sample})
		}
		for _, v := range r.Violations {
			raws = append(raws, rawViol{jobs[i], v})
		}
		for _, c := range r.Candidates {
			k := c.A + " <-> " + c.B + "  [" + c.RoleA + " / " + c.RoleB + "]"
			if !candSeen[k] {
				candSeen[k] = true
				cands = append(cands, k)
			}
		}
	}

	// differential validation: engine-concrete vs native on sample vectors
	diffRun, diffBad := 0, 0
	var diffNotes []string
	if spec.Differential > 0 && spec.Replay != "engine" {
		var picks []int
		step := 1 + len(results)/spec.Differential
		for i := 0; i < len(results) && len(picks) < spec.Differential; i += step {
			if results[i] != nil && results[i].Sample != "" && !jobs[i].EngineReplay {
				picks = append(picks, i)
			}
		}
		var cj []Job
		for _, i := range picks {
			j := jobs[i]
			j.Concrete = true
			j.Vector = parseSampleVector(results[i].Sample)
			cj = append(cj, j)
		}
		cres, _ := runJobs(cj, nw)
		for k, j := range cj {
			if cres[k] == nil || cres[k].EngineErr != "" {
				continue
			}
			o := nb.replay(j.Pkg, j.Harness, j.Params, j.Vector)
			if o.Status == "error" {
				diffNotes = append(diffNotes, "native run error: "+truncate(o.Detail, 200))
				continue
			}
			diffRun++
			if !sameObs(cres[k].Observed, o.Obs) || (o.Status != "completed") != (len(cres[k].Violations) > 0) {
				diffBad++
				diffNotes = append(diffNotes, fmt.Sprintf("%s%v vector=%v: engine obs=%v viol=%d, native status=%s obs=%v", j.Harness, j.Params, j.Vector, cres[k].Observed, len(cres[k].Violations), o.Status, o.Obs))
			}
		}
	}

	// confirm violations by replay (dedupe per harness+message+class; keep a few of each)
	known := loadKnown()
	seen := map[string]int{}
	var conf []confirmed
	var unconfirmed []string
	os.RemoveAll(filepath.Join(outDir(), "replays", spec.ID))
	os.MkdirAll(filepath.Join(outDir(), "replays", spec.ID), 0755)
	for _, rv := range raws {
		key := rv.job.Harness + "|" + rv.v.Kind + "|" + rv.v.Msg + "|" + rv.v.Class
		if seen[key] >= 2 || len(conf) >= 16 {
			continue
		}
		seen[key]++
		var o replayOutcome
		engine := spec.Replay == "engine" || rv.job.EngineReplay
		if engine {
			o = engineReplay(rv.job, rv.v)
		} else {
			o = nb.replay(rv.job.Pkg, rv.job.Harness, rv.job.Params, rv.v.Vector)
		}
		ok := o.Status == "assert-failed" || o.Status == "panic" || o.Status == "timeout"
		if !ok && !engine {
			// float64 / time values are opaque to the solver (uninterpreted formatting): the model's
			// bit pattern is arbitrary. Retry the replay with a table of concrete boundary values.
			if alt, o2, hit := retryOpaque(nb, rv.job, rv.v); hit {
				rv.v.Vector = alt
				rv.v.Notes = append(rv.v.Notes, "float/time draws replaced by a concrete boundary value for the native replay")
				o, ok = o2, true
			}
		}
		if !ok {
			unconfirmed = append(unconfirmed, fmt.Sprintf("%s%v %s: %s (vector %v) -> replay %s %s", rv.job.Harness, rv.job.Params, rv.v.Kind, rv.v.Msg, rv.v.Vector, o.Status, truncate(o.Detail, 200)))
			continue
		}
		c := confirmed{Harness: rv.job.Harness, Pkg: rv.job.Pkg, V: rv.v, Params: rv.job.Params, Outcome: o}
		subject := rv.job.Harness + " " + rv.v.Class + " " + rv.v.Msg
		for _, k := range known {
			if k.kind == "known" && k.property == spec.ID && k.match != "" && strings.Contains(subject, k.match) {
				c.Known = true
			}
		}
		rp := filepath.Join(outDir(), "replays", spec.ID, fmt.Sprintf("%s_%d.json", rv.job.Harness, len(conf)))
		rb, _ := json.MarshalIndent(map[string]interface{}{"property": spec.ID, "pkg": rv.job.Pkg, "harness": rv.job.Harness, "params": rv.job.Params,
			"vector": rv.v.Vector, "names": rv.v.Names, "kind": rv.v.Kind, "msg": rv.v.Msg, "class": rv.v.Class, "notes": rv.v.Notes, "replay_status": o.Status, "replay_detail": o.Detail, "mode": map[bool]string{true: "engine", false: "native"}[engine]}, "", " ")
		os.WriteFile(rp, rb, 0644)
		c.Replay = rp
		conf = append(conf, c)
	}

	// side conditions outside the engine
	var extraViol []string
	ev := &Evidence{PropertyID: spec.ID, Tier: tier, Seed: seed, Level: "other", Coverage: map[string]interface{}{}}
	if spec.Extra != nil {
		xv, xerr := spec.Extra(tier, ev)
		if xerr != nil {
			agg.engineErrs = append(agg.engineErrs, "extra: "+xerr.Error())
		}
		extraViol = xv
	}

	// verdict
	status := 0
	nviol := 0
	printedKnown := map[string]bool{}
	for _, c := range conf {
		if c.Known {
			for _, k := range known {
				subject := c.Harness + " " + c.V.Class + " " + c.V.Msg
				if k.kind == "known" && k.property == spec.ID && k.match != "" && strings.Contains(subject, k.match) && !printedKnown[k.text] {
					printedKnown[k.text] = true
					fmt.Printf("KNOWN-FINDING: property=%s %s\n", spec.ID, strings.TrimSpace(strings.TrimPrefix(strings.TrimSpace(strings.TrimPrefix(k.text, "known:")), "property="+spec.ID)))
				}
			}
			continue
		}
		nviol++
		fmt.Printf("VIOLATION property=%s replay=%s\n", spec.ID, c.Replay)
		fmt.Printf("  %s%v: %s: %s [%s] vector=%v -> %s %s\n", c.Harness, c.Params, c.V.Kind, c.V.Msg, c.V.Class, c.V.Vector, c.Outcome.Status, c.Outcome.Detail)
		status = 1
	}
	for i, xv := range extraViol {
		rp := filepath.Join(outDir(), "replays", spec.ID, fmt.Sprintf("extra_%d.txt", i))
		os.WriteFile(rp, []byte(xv+"\n"), 0644)
		isKnown := false
		for _, k := range known {
			if k.kind == "known" && k.property == spec.ID && k.match != "" && strings.Contains(xv, k.match) {
				isKnown = true
				if !printedKnown[k.text] {
					printedKnown[k.text] = true
					fmt.Printf("KNOWN-FINDING: property=%s %s\n", spec.ID, strings.TrimSpace(strings.TrimPrefix(strings.TrimSpace(strings.TrimPrefix(k.text, "known:")), "property="+spec.ID)))
				}
			}
		}
		if isKnown {
			continue
		}
		nviol++
		fmt.Printf("VIOLATION property=%s replay=%s\n  %s\n", spec.ID, rp, xv)
		status = 1
	}
	if agg.skipped > 0 {
		agg.engineErrs = append(agg.engineErrs, fmt.Sprintf("%d jobs not explored: the check already had %d counterexamples", agg.skipped, maxViolPerCheck))
	}
	broken := false
	if len(agg.engineErrs) > 0 || agg.inconcl > 0 || agg.truncated > 0 || agg.crossBad > 0 || diffBad > 0 {
		broken = true
	}
	if !spec.NoEngineJobs && (agg.paths == 0 || (agg.asserts == 0 && spec.Extra == nil)) {
		broken = true
		agg.engineErrs = append(agg.engineErrs, "vacuous: no path reached an assertion")
	}
	for h, n := range agg.perHarness {
		if n == 0 && status == 0 {
			hasViol := false
			for _, rv := range raws {
				if rv.job.Harness == h {
					hasViol = true
				}
			}
			if !hasViol {
				broken = true
				agg.engineErrs = append(agg.engineErrs, "vacuous harness (no path ran to the end): "+h)
			}
		}
	}

	// evidence
	funcs := sortedKeys(agg.funcs)
	var modFuncs []string
	for _, f := range funcs {
		if strings.Contains(f, "simplefix-go") && !strings.Contains(f, "zzverif") && !strings.Contains(f, ".H_") {
			modFuncs = append(modFuncs, strings.ReplaceAll(f, modPath, "~"))
		}
	}
	cov := ev.Coverage
	cov["explanation"] = spec.Explanation
	cov["rule"] = spec.Rule
	cov["bounds"] = spec.Bounds[tier]
	cov["outside_the_claim"] = spec.Outside
	if !spec.NoEngineJobs {
		cov["evaluations"] = agg.paths
		cov["distinct_nontrivial"] = agg.nontriv
		cov["jobs"] = len(jobs)
		cov["obligations"] = agg.asserts
		cov["discharged"] = agg.discharged
	}
	cov["discharged_without_solver"] = agg.trivial
	cov["inconclusive"] = agg.inconcl
	if len(agg.inconclJobs) > 0 {
		cov["inconclusive_jobs"] = agg.inconclJobs
	}
	cov["solver_queries"] = agg.queries
	cov["answered_from_cached_models"] = agg.hits
	cov["solver_seconds"] = round3(agg.solverS)
	cov["max_query_seconds"] = round3(agg.maxQ)
	cov["ssa_instructions_executed"] = agg.steps
	cov["path_outcomes"] = agg.ends
	cov["reachability_witnesses"] = agg.reached
	cov["vacuous_jobs"] = agg.vacuous
	cov["functions_encoded_sample"] = modFuncs
	cov["environment_models_used"] = sortedKeys(agg.stubs)
	cov["cross_checked_queries"] = agg.cross
	cov["cross_check_disagreements"] = agg.crossBad
	cov["solver"] = "z3 5.1.0 (z3-new -in, incremental push/pop); every 97th query re-decided by z3 4.8.12 and cvc5 1.0.3"
	cov["traces_validated_against_impl"] = diffRun
	cov["differential_mismatches"] = diffBad
	if len(diffNotes) > 0 {
		cov["differential_notes"] = diffNotes
	}
	if spec.Lockset {
		sort.Strings(cands)
		cov["lockset_candidates"] = cands
		cov["lockset_candidate_count"] = len(cands)
	}
	cov["counterexamples_found"] = len(raws)
	cov["counterexamples_confirmed_by_replay"] = len(conf)
	if len(unconfirmed) > 0 {
		cov["unconfirmed_counterexamples"] = unconfirmed
	}
	if len(agg.engineErrs) > 0 {
		cov["engine_errors"] = agg.engineErrs
	}
	if len(agg.samples) == 0 {
		agg.samples = append(agg.samples, "no completed path (see violations)")
	}
	if !spec.NoEngineJobs {
		cov["samples"] = agg.samples
	}
	var kf []string
	for k := range printedKnown {
		kf = append(kf, k)
	}
	if len(kf) > 0 {
		cov["known_findings_reported"] = kf
	}
	ev.Assumptions = spec.Assumptions
	ev.WallS = round3(time.Since(t0).Seconds())
	ev.Violations = nviol
	b, _ := json.MarshalIndent(ev, "", " ")
	os.WriteFile(evPath, b, 0644)

	fmt.Printf("%s %s: jobs=%d paths=%d obligations=%d discharged=%d queries=%d solver=%.1fs wall=%.1fs violations=%d known=%d unconfirmed=%d\n",
		spec.ID, tier, len(jobs), agg.paths, agg.asserts, agg.discharged, agg.queries, agg.solverS, time.Since(t0).Seconds(), nviol, len(printedKnown), len(unconfirmed))
	if status == 1 {
		return 1
	}
	if len(unconfirmed) > 0 {
		fmt.Println("INCONCLUSIVE: counterexamples that did not reproduce against the real build (engine/model defect?):")
		for _, u := range unconfirmed {
			fmt.Println("  ", u)
		}
		return 2
	}
	if broken {
		fmt.Println("INCONCLUSIVE: the check could not decide everything within its bounds:")
		for _, e := range agg.engineErrs {
			fmt.Println("  ", e)
		}
		if agg.inconcl > 0 {
			fmt.Println("   solver returned unknown on", agg.inconcl, "queries:", strings.Join(agg.inconclJobs, " "))
		}
		if agg.truncated > 0 {
			fmt.Println("   path budget exhausted on", agg.truncated, "jobs")
		}
		if agg.crossBad > 0 {
			fmt.Println("   solver cross-check disagreements:", agg.crossBad)
		}
		if diffBad > 0 {
			fmt.Println("   engine/native differential mismatches:", diffBad, diffNotes)
		}
		return 2
	}
	return 0
}

func round3(f float64) float64 { return float64(int(f*1000+0.5)) / 1000 }

func sortedKeys(m map[string]bool) []string {
	var r []string
	for k := range m {
		r = append(r, k)
	}
	sort.Strings(r)
	return r
}

func parseSampleVector(s string) []uint64 {
	i := strings.Index(s, "vector=[")
	if i < 0 {
		return nil
	}
	s = s[i+len("vector=["):]
	s = strings.TrimSuffix(s, "]")
	var r []uint64
	for _, f := range strings.Fields(s) {
		var u uint64
		fmt.Sscan(f, &u)
		r = append(r, u)
	}
	return r
}

func sameObs(a, b []observation) bool {
	if len(a) != len(b) {
		return false
	}
	for i := range a {
		if a[i] != b[i] {
			return false
		}
	}
	return true
}

// engineReplay re-runs the harness concretely inside the engine with the model's values.
func engineReplay(job Job, v Violation) replayOutcome {
	j := job
	j.Concrete = true
	j.Vector = v.Vector
	j.AuxVector = v.Aux
	res, err := runJobs([]Job{j}, 1)
	if err != nil || res[0] == nil {
		return replayOutcome{Status: "error", Detail: fmt.Sprint(err)}
	}
	if res[0].EngineErr != "" {
		return replayOutcome{Status: "error", Detail: res[0].EngineErr}
	}
	for _, x := range res[0].Violations {
		if x.Kind == "panic" {
			return replayOutcome{Status: "panic", Detail: x.Msg}
		}
		return replayOutcome{Status: "assert-failed", Detail: x.Msg}
	}
	if res[0].Ends["assume-false"] > 0 {
		return replayOutcome{Status: "assume-failed"}
	}
	return replayOutcome{Status: "completed"}
}

func replayMain(args []string) int {
	if len(args) < 2 {
		usage()
	}
	b, err := os.ReadFile(args[1])
	if err != nil {
		fmt.Println(err)
		return 2
	}
	if strings.HasSuffix(args[1], ".txt") {
		fmt.Print(string(b))
		return 1
	}
	var r struct {
		Pkg, Harness, Mode string
		Params             []int
		Vector             []uint64
	}
	json.Unmarshal(b, &r)
	var o replayOutcome
	if r.Mode == "engine" {
		o = engineReplay(Job{Pkg: r.Pkg, Harness: r.Harness, Params: r.Params}, Violation{Vector: r.Vector})
	} else {
		nb := newNativeBuild()
		defer nb.cleanup()
		o = nb.replay(r.Pkg, r.Harness, r.Params, r.Vector)
	}
	fmt.Printf("replay %s %s params=%v vector=%v -> %s %s\n", r.Pkg, r.Harness, r.Params, r.Vector, o.Status, o.Detail)
	if o.Status == "completed" || o.Status == "assume-failed" {
		return 0
	}
	return 1
}

var floatCandidates = []float64{1e-5, 1e6, 2.5000005e+06, 1e21, 123456789.125, 1e-7, -1e6, 0.000001, 100000, 0.001, 1.39851, 5e-324, 1.7976931348623157e308, -0.0}
var timeCandidates = []uint64{0, 1, 999, 1000, 86399999, 951782400000, 1709164800123, 4102444799999}

// retryOpaque replays a counterexample with every float (and time) draw replaced by table values.
func retryOpaque(nb *nativeBuild, job Job, v Violation) ([]uint64, replayOutcome, bool) {
	hasF, hasT := false, false
	for _, n := range v.Names {
		if n == "float" {
			hasF = true
		}
		if n == "timems" {
			hasT = true
		}
	}
	if !hasF && !hasT {
		return nil, replayOutcome{}, false
	}
	try := func(fbits uint64, tms uint64, useF, useT bool) ([]uint64, replayOutcome, bool) {
		alt := append([]uint64{}, v.Vector...)
		for i, n := range v.Names {
			if i >= len(alt) {
				break
			}
			if n == "float" && useF {
				alt[i] = fbits
			}
			if n == "timems" && useT {
				alt[i] = tms
			}
		}
		o := nb.replay(job.Pkg, job.Harness, job.Params, alt)
		if o.Status == "assert-failed" || o.Status == "panic" || o.Status == "timeout" {
			return alt, o, true
		}
		return nil, o, false
	}
	if hasF {
		for _, f := range floatCandidates {
			if a, o, ok := try(float64bits(f), 0, true, false); ok {
				return a, o, true
			}
		}
	}
	if hasT {
		for _, t := range timeCandidates {
			if a, o, ok := try(0, t, false, true); ok {
				return a, o, true
			}
		}
	}
	return nil, replayOutcome{}, false
}

// outDir: where evidence and replay files are written (GOSYM_OUT for trial runs against a scratch
// copy of the repository, /verif otherwise).
func outDir() string {
	if d := os.Getenv("GOSYM_OUT"); d != "" {
		os.MkdirAll(filepath.Join(d, "evidence"), 0755)
		return d
	}
	return verifDir
}
