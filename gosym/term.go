package main

// Hash-consed SMT terms (QF_BV + Bool). One table per process (workers are processes).

import (
	"fmt"
	"strings"
)

// Term: w==0 => Bool, else (_ BitVec w).
type Term struct {
	op   string
	w    int
	c    uint64 // constant value (op=="c")
	args []*Term
	name string // variable name (op=="v")
	id   int
}

type tkey struct {
	op      string
	w       int
	c       uint64
	name    string
	a, b, d int
}

var terms = map[tkey]*Term{}
var termN int

func mk(op string, w int, c uint64, name string, args ...*Term) *Term {
	k := tkey{op: op, w: w, c: c, name: name}
	switch len(args) {
	case 3:
		k.d = args[2].id
		fallthrough
	case 2:
		k.b = args[1].id
		fallthrough
	case 1:
		k.a = args[0].id
	case 0:
	default:
		panic("mk: too many args")
	}
	if t, ok := terms[k]; ok {
		return t
	}
	termN++
	t := &Term{op: op, w: w, c: c, name: name, args: args, id: termN}
	terms[k] = t
	return t
}

func mask(w int) uint64 {
	if w >= 64 {
		return ^uint64(0)
	}
	return (1 << uint(w)) - 1
}
func C(w int, v uint64) *Term { return mk("c", w, v&mask(w), "") }
func CI(v int) *Term          { return C(64, uint64(int64(v))) }
func B(b bool) *Term {
	if b {
		return mk("c", 0, 1, "")
	}
	return mk("c", 0, 0, "")
}
func (t *Term) isC() bool     { return t.op == "c" }
func (t *Term) isTrue() bool  { return t.op == "c" && t.w == 0 && t.c == 1 }
func (t *Term) isFalse() bool { return t.op == "c" && t.w == 0 && t.c == 0 }
func (t *Term) sval() int64   { return sext(t.c, t.w) }

// variables: declared once per process; the solver syncs declarations lazily.
var varDecls []*Term
var varByName = map[string]*Term{}

func Var(name string, w int) *Term {
	if t, ok := varByName[name]; ok {
		if t.w != w {
			panic("Var width clash " + name)
		}
		return t
	}
	t := mk("v", w, 0, name)
	varByName[name] = t
	varDecls = append(varDecls, t)
	return t
}

func sext(v uint64, w int) int64 {
	if w >= 64 || w == 0 {
		return int64(v)
	}
	sh := uint(64 - w)
	return int64(v<<sh) >> sh
}

// per-path facts "variable != constant" used to fold equalities without the solver.
var exFacts = map[*Term]map[uint64]bool{}

func resetFacts() {
	for k := range exFacts {
		delete(exFacts, k)
	}
}
func noteNe(v *Term, c uint64) {
	m := exFacts[v]
	if m == nil {
		m = map[uint64]bool{}
		exFacts[v] = m
	}
	m[c] = true
}

func foldBin(op string, w int, x, y uint64) (*Term, bool) {
	sx, sy := sext(x, w), sext(y, w)
	switch op {
	case "bvadd":
		return C(w, x+y), true
	case "bvsub":
		return C(w, x-y), true
	case "bvmul":
		return C(w, x*y), true
	case "bvsdiv":
		if sy != 0 {
			if sy == -1 {
				return C(w, uint64(-sx)), true
			}
			return C(w, uint64(sx/sy)), true
		}
	case "bvsrem":
		if sy != 0 {
			if sy == -1 {
				return C(w, 0), true
			}
			return C(w, uint64(sx%sy)), true
		}
	case "bvudiv":
		if y != 0 {
			return C(w, x/y), true
		}
	case "bvurem":
		if y != 0 {
			return C(w, x%y), true
		}
	case "bvand":
		return C(w, x&y), true
	case "bvor":
		return C(w, x|y), true
	case "bvxor":
		return C(w, x^y), true
	case "bvshl":
		if y >= uint64(w) {
			return C(w, 0), true
		}
		return C(w, x<<y), true
	case "bvlshr":
		if y >= uint64(w) {
			return C(w, 0), true
		}
		return C(w, (x&mask(w))>>y), true
	case "bvashr":
		if y >= uint64(w) {
			y = uint64(w - 1)
		}
		return C(w, uint64(sx>>y)), true
	case "=":
		return B(x == y), true
	case "bvslt":
		return B(sx < sy), true
	case "bvsle":
		return B(sx <= sy), true
	case "bvult":
		return B(x < y), true
	case "bvule":
		return B(x <= y), true
	}
	return nil, false
}

func Bin(op string, a, b *Term) *Term {
	w := a.w
	if a.w != b.w {
		panic(fmt.Sprintf("Bin %s width mismatch %d vs %d", op, a.w, b.w))
	}
	if a.isC() && b.isC() {
		if r, ok := foldBin(op, w, a.c, b.c); ok {
			return r
		}
	}
	switch op {
	case "=":
		if a == b {
			return B(true)
		}
		if w == 0 {
			if a.isC() {
				a, b = b, a
			}
			if b.isTrue() {
				return a
			}
			if b.isFalse() {
				return Not(a)
			}
		}
		if b.op == "v" && a.isC() {
			a, b = b, a
		}
		if a.op == "v" && b.isC() && exFacts[a][b.c] {
			return B(false)
		}
		if b.op == "zext" && a.isC() {
			a, b = b, a
		}
		if a.op == "zext" && b.isC() {
			if b.c > mask(a.args[0].w) {
				return B(false)
			}
			return Bin("=", a.args[0], C(a.args[0].w, b.c))
		}
		// (x + c1) == c2  -> x == c2-c1
		if a.op == "bvadd" && b.isC() && a.args[1].isC() {
			return Bin("=", a.args[0], C(w, b.c-a.args[1].c))
		}
		if a.id > b.id {
			a, b = b, a
		}
	case "bvadd":
		if a.isC() && !b.isC() {
			a, b = b, a
		}
		if b.isC() && b.c == 0 {
			return a
		}
		if b.isC() && a.op == "bvadd" && a.args[1].isC() {
			return Bin("bvadd", a.args[0], C(w, a.args[1].c+b.c))
		}
	case "bvsub":
		if b.isC() {
			return Bin("bvadd", a, C(w, -b.c))
		}
		if a == b {
			return C(w, 0)
		}
	case "bvmul":
		if a.isC() && !b.isC() {
			a, b = b, a
		}
		if b.isC() && b.c == 1 {
			return a
		}
		if b.isC() && b.c == 0 {
			return b
		}
	case "bvule":
		if a.isC() && a.c == 0 {
			return B(true)
		}
		if a == b {
			return B(true)
		}
		if b.op == "zext" && a.isC() && a.c > mask(b.args[0].w) {
			return B(false)
		}
		if a.op == "zext" && b.isC() && b.c >= mask(a.args[0].w) {
			return B(true)
		}
	case "bvult":
		if b.isC() && b.c == 0 {
			return B(false)
		}
		if a == b {
			return B(false)
		}
		if a.op == "zext" && b.isC() && b.c > mask(a.args[0].w) {
			return B(true)
		}
	case "bvslt":
		if a == b {
			return B(false)
		}
		// zext(x) <s c with x narrower: zext is non-negative
		if a.op == "zext" && a.args[0].w < w && b.isC() {
			if b.sval() <= 0 {
				return B(false)
			}
			if uint64(b.sval()) > mask(a.args[0].w) {
				return B(true)
			}
		}
		if b.op == "zext" && b.args[0].w < w && a.isC() {
			if a.sval() < 0 {
				return B(true)
			}
			if uint64(a.sval()) >= mask(b.args[0].w) {
				return B(false)
			}
		}
	case "bvsle":
		if a == b {
			return B(true)
		}
		if a.op == "zext" && a.args[0].w < w && b.isC() {
			if b.sval() < 0 {
				return B(false)
			}
			if uint64(b.sval()) >= mask(a.args[0].w) {
				return B(true)
			}
		}
		if b.op == "zext" && b.args[0].w < w && a.isC() {
			if a.sval() <= 0 {
				return B(true)
			}
			if uint64(a.sval()) > mask(b.args[0].w) {
				return B(false)
			}
		}
	}
	rw := w
	switch op {
	case "=", "bvslt", "bvsle", "bvult", "bvule":
		rw = 0
	}
	return mk(op, rw, 0, "", a, b)
}

func Not(a *Term) *Term {
	if a.isC() {
		return B(a.c == 0)
	}
	if a.op == "not" {
		return a.args[0]
	}
	return mk("not", 0, 0, "", a)
}
func And(a, b *Term) *Term {
	if a.isFalse() || b.isFalse() {
		return B(false)
	}
	if a.isTrue() {
		return b
	}
	if b.isTrue() {
		return a
	}
	if a == b {
		return a
	}
	if a == Not(b) {
		return B(false)
	}
	return mk("and", 0, 0, "", a, b)
}
func Or(a, b *Term) *Term      { return Not(And(Not(a), Not(b))) }
func Implies(a, b *Term) *Term { return Or(Not(a), b) }
func Xor(a, b *Term) *Term     { return Not(Bin("=", a, b)) }

func Zext(a *Term, w int) *Term {
	if a.w == w {
		return a
	}
	if a.isC() {
		return C(w, a.c)
	}
	if a.op == "zext" {
		return Zext(a.args[0], w)
	}
	return mk("zext", w, 0, "", a)
}
func Sext(a *Term, w int) *Term {
	if a.w == w {
		return a
	}
	if a.isC() {
		return C(w, uint64(sext(a.c, a.w)))
	}
	if a.op == "zext" { // zero-extended value is non-negative
		return Zext(a.args[0], w)
	}
	return mk("sext", w, 0, "", a)
}
func Trunc(a *Term, w int) *Term {
	if a.w == w {
		return a
	}
	if a.isC() {
		return C(w, a.c)
	}
	if (a.op == "zext" || a.op == "sext") && a.args[0].w == w {
		return a.args[0]
	}
	if (a.op == "zext" || a.op == "sext") && a.args[0].w > w {
		return Trunc(a.args[0], w)
	}
	if (a.op == "zext" || a.op == "sext") && a.args[0].w < w {
		if a.op == "zext" {
			return Zext(a.args[0], w)
		}
		return Sext(a.args[0], w)
	}
	// the low bits of a sum/difference/product depend only on the low bits of the operands
	switch a.op {
	case "bvadd", "bvsub", "bvmul":
		return Bin(a.op, Trunc(a.args[0], w), Trunc(a.args[1], w))
	case "trunc":
		return Trunc(a.args[0], w)
	}
	return mk("trunc", w, 0, "", a)
}
func Ite(c, a, b *Term) *Term {
	if c.isTrue() {
		return a
	}
	if c.isFalse() {
		return b
	}
	if a == b {
		return a
	}
	if a.w == 0 {
		if a.isTrue() && b.isFalse() {
			return c
		}
		if a.isFalse() && b.isTrue() {
			return Not(c)
		}
	}
	return mk("ite", a.w, 0, "", c, a, b)
}

// ---- SMT-LIB printing (let-free: shared sub-terms become define-fun) ----

type smtPrinter struct {
	seen map[int]bool
	defs []string
}

func (p *smtPrinter) ref(t *Term) string {
	switch t.op {
	case "c":
		if t.w == 0 {
			if t.c == 1 {
				return "true"
			}
			return "false"
		}
		return fmt.Sprintf("(_ bv%d %d)", t.c, t.w)
	case "v":
		return t.name
	}
	nm := fmt.Sprintf("t%d", t.id)
	if p.seen[t.id] {
		return nm
	}
	p.seen[t.id] = true
	as := make([]string, len(t.args))
	for i, a := range t.args {
		as[i] = p.ref(a)
	}
	var body string
	switch t.op {
	case "zext":
		body = fmt.Sprintf("((_ zero_extend %d) %s)", t.w-t.args[0].w, as[0])
	case "sext":
		body = fmt.Sprintf("((_ sign_extend %d) %s)", t.w-t.args[0].w, as[0])
	case "trunc":
		body = fmt.Sprintf("((_ extract %d 0) %s)", t.w-1, as[0])
	default:
		body = "(" + t.op + " " + strings.Join(as, " ") + ")"
	}
	sort := "Bool"
	if t.w > 0 {
		sort = fmt.Sprintf("(_ BitVec %d)", t.w)
	}
	p.defs = append(p.defs, fmt.Sprintf("(define-fun %s () %s %s)", nm, sort, body))
	return nm
}

// ---- concrete evaluation under a model (missing variables read as 0) ----

type Model map[*Term]uint64

func evalTerm(t *Term, m Model, memo map[*Term]uint64) uint64 {
	switch t.op {
	case "c":
		return t.c
	case "v":
		return m[t] & mask64(t.w)
	}
	if v, ok := memo[t]; ok {
		return v
	}
	var r uint64
	switch t.op {
	case "not":
		r = 1 - evalTerm(t.args[0], m, memo)
	case "and":
		r = evalTerm(t.args[0], m, memo) & evalTerm(t.args[1], m, memo)
	case "ite":
		if evalTerm(t.args[0], m, memo) == 1 {
			r = evalTerm(t.args[1], m, memo)
		} else {
			r = evalTerm(t.args[2], m, memo)
		}
	case "zext":
		r = evalTerm(t.args[0], m, memo)
	case "sext":
		r = uint64(sext(evalTerm(t.args[0], m, memo), t.args[0].w)) & mask(t.w)
	case "trunc":
		r = evalTerm(t.args[0], m, memo) & mask(t.w)
	default:
		x, y := evalTerm(t.args[0], m, memo), evalTerm(t.args[1], m, memo)
		w := t.args[0].w
		c, ok := foldBin(t.op, w, x, y)
		if !ok {
			// division by zero per SMT-LIB
			switch t.op {
			case "bvudiv":
				r = mask(w)
			case "bvurem":
				r = x
			case "bvsdiv":
				if sext(x, w) < 0 {
					r = 1
				} else {
					r = mask(w)
				}
			case "bvsrem":
				r = x
			default:
				panic("evalTerm: op " + t.op)
			}
		} else {
			r = c.c
		}
	}
	memo[t] = r
	return r
}

func mask64(w int) uint64 {
	if w == 0 {
		return 1
	}
	return mask(w)
}

// short: compact rendering for diagnostics.
func (t *Term) short(depth int) string {
	switch t.op {
	case "c":
		return fmt.Sprintf("%d", t.sval())
	case "v":
		return t.name
	}
	if depth <= 0 {
		return "(" + t.op + " ..)"
	}
	parts := []string{t.op}
	for _, a := range t.args {
		parts = append(parts, a.short(depth-1))
	}
	return "(" + strings.Join(parts, " ") + ")"
}
