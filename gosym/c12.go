package main

// C12: translation validation of cmd/fixgen. For each schema (shipped, test data, derived) the
// generator is run natively; an oracle read independently from the XML produces a driver that
// uses every generated constructor/accessor by the names and types the schema implies; the
// generated package + driver are loaded into the engine and every accessor is checked for all
// argument values (setter puts exactly its own tag and value on the wire, getter returns it,
// populating constructors take the required members in order, members serialize in schema order).

import (
	"encoding/json"
	"encoding/xml"
	"fmt"
	"math/rand"
	"os"
	"os/exec"
	"path/filepath"
	"sort"
	"strings"
)

// ---- independent schema model (does not import the generator package) ----

type sMember struct {
	XMLName  xml.Name
	Name     string     `xml:"name,attr"`
	Required string     `xml:"required,attr"`
	Members  []*sMember `xml:",any"`
}
type sContainer struct {
	Name    string     `xml:"name,attr"`
	MsgCat  string     `xml:"msgcat,attr"`
	MsgType string     `xml:"msgtype,attr"`
	Members []*sMember `xml:",any"`
}
type sValue struct {
	Enum string `xml:"enum,attr"`
	Desc string `xml:"description,attr"`
}
type sField struct {
	Number string    `xml:"number,attr"`
	Name   string    `xml:"name,attr"`
	Type   string    `xml:"type,attr"`
	Values []*sValue `xml:"value"`
}
type sDoc struct {
	XMLName    xml.Name      `xml:"fix"`
	Type       string        `xml:"type,attr"`
	Major      string        `xml:"major,attr"`
	Minor      string        `xml:"minor,attr"`
	SP         string        `xml:"servicepack,attr"`
	Header     *sContainer   `xml:"header"`
	Trailer    *sContainer   `xml:"trailer"`
	Messages   []*sContainer `xml:"messages>message"`
	Components []*sContainer `xml:"components>component"`
	Fields     []*sField     `xml:"fields>field"`
}
type sType struct {
	Name string `xml:"name,attr"`
	Cast string `xml:"cast,attr"`
}
type sTypes struct {
	XMLName xml.Name `xml:"config"`
	Name    string   `xml:"name,attr"`
	Types   []*sType `xml:"types>type"`
}

func readXML(path string, v interface{}) error {
	b, err := os.ReadFile(path)
	if err != nil {
		return err
	}
	return xml.Unmarshal(b, v)
}

func writeDoc(path string, d *sDoc) error {
	var sb strings.Builder
	var wm func(ms []*sMember, ind string)
	wm = func(ms []*sMember, ind string) {
		for _, m := range ms {
			if len(m.Members) == 0 {
				fmt.Fprintf(&sb, "%s<%s name='%s' required='%s'/>\n", ind, m.XMLName.Local, m.Name, m.Required)
			} else {
				fmt.Fprintf(&sb, "%s<%s name='%s' required='%s'>\n", ind, m.XMLName.Local, m.Name, m.Required)
				wm(m.Members, ind+"  ")
				fmt.Fprintf(&sb, "%s</%s>\n", ind, m.XMLName.Local)
			}
		}
	}
	fmt.Fprintf(&sb, "<fix major='%s' type='%s' servicepack='%s' minor='%s'>\n", d.Major, d.Type, d.SP, d.Minor)
	sb.WriteString(" <header>\n")
	wm(d.Header.Members, "  ")
	sb.WriteString(" </header>\n <messages>\n")
	for _, m := range d.Messages {
		fmt.Fprintf(&sb, "  <message name='%s' msgcat='%s' msgtype='%s'>\n", m.Name, m.MsgCat, m.MsgType)
		wm(m.Members, "   ")
		sb.WriteString("  </message>\n")
	}
	sb.WriteString(" </messages>\n <trailer>\n")
	wm(d.Trailer.Members, "  ")
	sb.WriteString(" </trailer>\n <components>\n")
	for _, c := range d.Components {
		fmt.Fprintf(&sb, "  <component name='%s'>\n", c.Name)
		wm(c.Members, "   ")
		sb.WriteString("  </component>\n")
	}
	sb.WriteString(" </components>\n <fields>\n")
	for _, f := range d.Fields {
		if len(f.Values) == 0 {
			fmt.Fprintf(&sb, "  <field number='%s' name='%s' type='%s'/>\n", f.Number, f.Name, f.Type)
		} else {
			fmt.Fprintf(&sb, "  <field number='%s' name='%s' type='%s'>\n", f.Number, f.Name, f.Type)
			for _, v := range f.Values {
				fmt.Fprintf(&sb, "   <value enum='%s' description='%s'/>\n", v.Enum, v.Desc)
			}
			sb.WriteString("  </field>\n")
		}
	}
	sb.WriteString(" </fields>\n</fix>\n")
	return os.WriteFile(path, []byte(sb.String()), 0644)
}

func writeTypes(path string, t *sTypes) error {
	var sb strings.Builder
	fmt.Fprintf(&sb, "<config name=\"%s\">\n <types>\n", t.Name)
	for _, x := range t.Types {
		fmt.Fprintf(&sb, "  <type name=\"%s\" cast=\"%s\"/>\n", x.Name, x.Cast)
	}
	sb.WriteString(" </types>\n</config>\n")
	return os.WriteFile(path, []byte(sb.String()), 0644)
}

// ---- oracle ----

type oracle struct {
	doc    *sDoc
	cast   map[string]string
	fields map[string]*sField
	groups map[string]*sMember // a group name defined in several places: the last definition wins (generator convention)
}

var excluded = map[string]bool{"BeginString": true, "BodyLength": true, "MsgType": true, "CheckSum": true}

var castGo = map[string]string{"Float": "float64", "Int": "int", "Raw": "[]byte", "Bool": "bool", "String": "string", "Time": "time.Time"}

func newOracle(d *sDoc, t *sTypes) *oracle {
	o := &oracle{doc: d, cast: map[string]string{}, fields: map[string]*sField{}}
	for _, x := range t.Types {
		o.cast[x.Name] = x.Cast
	}
	for _, f := range d.Fields {
		o.fields[f.Name] = f
	}
	o.groups = map[string]*sMember{}
	var walk func(ms []*sMember)
	walk = func(ms []*sMember) {
		for _, m := range ms {
			if m.XMLName.Local == "group" {
				o.groups[m.Name] = m
			}
			walk(m.Members)
		}
	}
	for _, m := range d.Messages {
		walk(m.Members)
	}
	for _, c := range d.Components {
		walk(c.Members)
	}
	walk(d.Header.Members)
	walk(d.Trailer.Members)
	return o
}

// groupMembers returns the canonical member list of a group.
func (o *oracle) groupMembers(m *sMember) []*sMember {
	if g, ok := o.groups[m.Name]; ok {
		return g.Members
	}
	return m.Members
}

// goType of a field member as the type mapping says: enumerated non-boolean fields are strings.
func (o *oracle) goType(field string) (string, error) {
	f := o.fields[field]
	if f == nil {
		return "", fmt.Errorf("field %s is not defined", field)
	}
	c, ok := o.cast[f.Type]
	if len(f.Values) > 0 && c != "Bool" {
		return "string", nil
	}
	if !ok {
		return "", fmt.Errorf("type %s of field %s has no mapping", f.Type, field)
	}
	return castGo[c], nil
}

func grpType(name string) string   { return strings.Replace(name, "No", "", 1) + "Grp" }
func entryType(name string) string { return strings.Replace(name, "No", "", 1) + "Entry" }
func localName(n string) string    { return strings.ToLower(n[:1]) + n[1:] }

type container struct {
	kind    string // "message" | "component" | "header" | "trailer" | "entry"
	name    string // Go type name
	xmlName string
	msgType string
	group   string // for entries: the group's XML name (NoXXX)
	members []*sMember
}

func (o *oracle) containers() []container {
	var cs []container
	filter := func(ms []*sMember) []*sMember {
		var r []*sMember
		for _, m := range ms {
			if !excluded[m.Name] {
				r = append(r, m)
			}
		}
		return r
	}
	cs = append(cs, container{kind: "header", name: "Header", members: filter(o.doc.Header.Members)})
	cs = append(cs, container{kind: "trailer", name: "Trailer", members: filter(o.doc.Trailer.Members)})
	for _, m := range o.doc.Messages {
		cs = append(cs, container{kind: "message", name: m.Name, xmlName: m.Name, msgType: m.MsgType, members: m.Members})
	}
	for _, c := range o.doc.Components {
		cs = append(cs, container{kind: "component", name: c.Name, members: filter(c.Members)})
	}
	groups := o.groups
	var gn []string
	for n := range groups {
		gn = append(gn, n)
	}
	sort.Strings(gn)
	for _, n := range gn {
		cs = append(cs, container{kind: "entry", name: entryType(n), group: n, members: groups[n].Members})
	}
	return cs
}

// ---- driver generation ----

type drvGen struct {
	o   *oracle
	sb  strings.Builder
	tmp int
	err error
}

func (g *drvGen) fail(err error) {
	if g.err == nil {
		g.err = err
	}
}

// symValue emits code that draws a symbolic value of the Go type and returns (expr, canonical-bytes expr).
func (g *drvGen) symValue(goType string, ind string) (string, string) {
	g.tmp++
	v := fmt.Sprintf("v%d", g.tmp)
	switch goType {
	case "string":
		fmt.Fprintf(&g.sb, "%s%s := string(zz.Bytes(2))\n", ind, v)
		return v, "[]byte(" + v + ")"
	case "int":
		fmt.Fprintf(&g.sb, "%s%s := zz.IntIn(10, 99)\n", ind, v)
		return v, "[]byte(strconv.Itoa(" + v + "))"
	case "float64":
		fmt.Fprintf(&g.sb, "%s%s := zz.Float()\n", ind, v)
		return v, "[]byte(strconv.FormatFloat(" + v + ", 'f', -1, 64))"
	case "bool":
		fmt.Fprintf(&g.sb, "%s%s := zz.Bool()\n", ind, v)
		return v, "boolText(" + v + ")"
	case "[]byte":
		fmt.Fprintf(&g.sb, "%s%s := zz.Bytes(2)\n", ind, v)
		return v, v
	case "time.Time":
		fmt.Fprintf(&g.sb, "%s%s := zz.TimeMs()\n", ind, v)
		return v, "[]byte(" + v + ".Format(fix.TimeLayout))"
	}
	g.fail(fmt.Errorf("no Go type for %q", goType))
	return "nil", "nil"
}

func eqExpr(goType, a, b string) string {
	switch goType {
	case "[]byte":
		return "zz.EqBytes(" + a + ", " + b + ")"
	case "time.Time":
		return a + ".Equal(" + b + ")"
	}
	return a + " == " + b
}

// firstField returns the path of setter calls that populates the first field reachable in a member
// (used to make a group entry / component non-empty) and appends the expected fields.
func (g *drvGen) populateMember(m *sMember, recv string, ind string, exp string) {
	switch m.XMLName.Local {
	case "field":
		gt, err := g.o.goType(m.Name)
		if err != nil {
			g.fail(err)
			return
		}
		v, canon := g.symValue(gt, ind)
		fmt.Fprintf(&g.sb, "%s%s.Set%s(%s)\n", ind, recv, m.Name, v)
		fmt.Fprintf(&g.sb, "%s%s = append(%s, kv{gen.Field%s, %s})\n", ind, exp, exp, m.Name, canon)
	case "component":
		g.tmp++
		c := fmt.Sprintf("c%d", g.tmp)
		fmt.Fprintf(&g.sb, "%s%s := %s.%s()\n", ind, c, recv, m.Name)
		comp := g.o.component(m.Name)
		if comp == nil {
			g.fail(fmt.Errorf("component %s is not defined", m.Name))
			return
		}
		// populate its first non-excluded member
		for _, cm := range comp.Members {
			if !excluded[cm.Name] {
				g.populateMember(cm, c, ind, exp)
				break
			}
		}
	case "group":
		g.tmp++
		gr, en := fmt.Sprintf("g%d", g.tmp), fmt.Sprintf("e%d", g.tmp)
		fmt.Fprintf(&g.sb, "%s%s := gen.New%s()\n", ind, en, entryType(m.Name))
		fmt.Fprintf(&g.sb, "%s%s = append(%s, kv{gen.Field%s, []byte(\"1\")})\n", ind, exp, exp, m.Name)
		if gm := g.o.groupMembers(m); len(gm) > 0 {
			g.populateMember(gm[0], en, ind, exp)
		}
		fmt.Fprintf(&g.sb, "%s%s := gen.New%s().AddEntry(%s)\n", ind, gr, grpType(m.Name), en)
		fmt.Fprintf(&g.sb, "%s%s.Set%s(%s)\n", ind, recv, grpType(m.Name), gr)
	}
}

func (o *oracle) component(name string) *sContainer {
	for _, c := range o.doc.Components {
		if c.Name == name {
			return c
		}
	}
	return nil
}

// argFor emits code building a constructor argument for a required member; returns the expression.
func (g *drvGen) argFor(m *sMember, ind, exp string) string {
	switch m.XMLName.Local {
	case "field":
		gt, err := g.o.goType(m.Name)
		if err != nil {
			g.fail(err)
			return "nil"
		}
		v, canon := g.symValue(gt, ind)
		fmt.Fprintf(&g.sb, "%s%s = append(%s, kv{gen.Field%s, %s})\n", ind, exp, exp, m.Name, canon)
		return v
	case "component":
		g.tmp++
		c := fmt.Sprintf("c%d", g.tmp)
		comp := g.o.component(m.Name)
		if comp == nil {
			g.fail(fmt.Errorf("component %s is not defined", m.Name))
			return "nil"
		}
		var args []string
		for _, cm := range comp.Members {
			if !excluded[cm.Name] && cm.Required == "Y" {
				args = append(args, g.argFor(cm, ind, exp))
			}
		}
		fmt.Fprintf(&g.sb, "%s%s := gen.New%s(%s)\n", ind, c, m.Name, strings.Join(args, ", "))
		if len(args) == 0 {
			// make it non-empty through its first member so that it is visible on the wire
			for _, cm := range comp.Members {
				if !excluded[cm.Name] {
					g.populateMember(cm, c, ind, exp)
					break
				}
			}
		}
		return c
	case "group":
		g.tmp++
		gr, en := fmt.Sprintf("g%d", g.tmp), fmt.Sprintf("e%d", g.tmp)
		fmt.Fprintf(&g.sb, "%s%s := gen.New%s()\n", ind, en, entryType(m.Name))
		fmt.Fprintf(&g.sb, "%s%s = append(%s, kv{gen.Field%s, []byte(\"1\")})\n", ind, exp, exp, m.Name)
		if gm := g.o.groupMembers(m); len(gm) > 0 {
			g.populateMember(gm[0], en, ind, exp)
		}
		fmt.Fprintf(&g.sb, "%s%s := gen.New%s().AddEntry(%s)\n", ind, gr, grpType(m.Name), en)
		return gr
	}
	return "nil"
}

// genDriver returns the Go source of the driver package and the job list [(container, member, mode)].
func (o *oracle) genDriver(genImport string) (string, [][3]int, error) {
	g := &drvGen{o: o}
	sb := &g.sb
	cs := o.containers()
	var jobs [][3]int
	usesStrconv, usesFix := false, false
	var body strings.Builder
	for ci, c := range cs {
		g.sb.Reset()
		fmt.Fprintf(sb, "func c%d(member, mode int) {\n", ci)
		newExpr := "gen.New" + c.name + "()"
		wire := "x.ToBytes()"
		frameStart := ""
		switch c.kind {
		case "message":
			fmt.Fprintf(sb, "\tzz.Assert(gen.MsgType%s == %q, \"C12: MsgType constant of %s differs from the schema\")\n", c.name, c.msgType, c.name)
		case "header", "component":
			// New<Component>(required...) - use the unexported-free route: required args below
		}
		_ = frameStart
		fmt.Fprintf(sb, "\tvar exp []kv\n\tswitch {\n")
		// mode 0: one member set on an otherwise empty container
		for mi, m := range c.members {
			if m.XMLName.Local != "field" {
				continue
			}
			gt, err := o.goType(m.Name)
			if err != nil {
				return "", nil, err
			}
			fmt.Fprintf(sb, "\tcase mode == 0 && member == %d:\n", mi)
			empty := newExpr
			if c.kind == "header" || c.kind == "component" || c.kind == "trailer" {
				empty = g.emptyComponent(c, "\t\t", "exp")
			}
			fmt.Fprintf(sb, "\t\tx := %s\n", empty)
			fmt.Fprintf(sb, "\t\tzz.Assert(gen.Field%s == %q, \"C12: field-number constant of %s differs from the schema\")\n", m.Name, o.fields[m.Name].Number, m.Name)
			v, canon := g.symValue(gt, "\t\t")
			fmt.Fprintf(sb, "\t\tx.Set%s(%s)\n", m.Name, v)
			fmt.Fprintf(sb, "\t\tzz.Assert(%s, \"C12: getter %s.%s does not return what its setter stored\")\n", eqExpr(gt, "x."+m.Name+"()", v), c.name, m.Name)
			fmt.Fprintf(sb, "\t\texp = insertAt(exp, %s, kv{%q, %s})\n", g.positionExpr(c, mi), o.fields[m.Name].Number, canon)
			g.emitWireCheck(c, wire, "\t\t", fmt.Sprintf("setter %s.Set%s does not put exactly its own tag and value on the wire", c.name, m.Name))
			jobs = append(jobs, [3]int{ci, mi, 0})
			if strings.Contains(canon, "strconv") {
				usesStrconv = true
			}
			if strings.Contains(canon, "fix.") {
				usesFix = true
			}
		}
		// mode 1: populating constructor with the required members, in order
		if c.kind == "message" || c.kind == "component" || c.kind == "header" {
			fmt.Fprintf(sb, "\tcase mode == 1:\n")
			var args []string
			for _, m := range c.members {
				if m.Required == "Y" {
					args = append(args, g.argFor(m, "\t\t", "exp"))
				}
			}
			ctor := "gen.New" + c.name
			if c.kind == "message" {
				ctor = "gen.Create" + c.name
			}
			fmt.Fprintf(sb, "\t\tx := %s(%s)\n", ctor, strings.Join(args, ", "))
			g.emitWireCheck(c, wire, "\t\t", fmt.Sprintf("populating constructor of %s does not take exactly the required members in schema order", c.name))
			jobs = append(jobs, [3]int{ci, -1, 1})
		}
		// mode 2: every member populated: schema order on the wire
		fmt.Fprintf(sb, "\tcase mode == 2:\n")
		{
			empty := newExpr
			if c.kind == "header" || c.kind == "component" {
				// required constructor arguments are overwritten by the setters below
				sb.WriteString("\t\tvar exp0 []kv\n\t\t_ = exp0\n")
				empty = g.emptyComponent(c, "\t\t", "exp0")
			} else if c.kind == "trailer" {
				empty = "gen.NewTrailer()"
			}
			fmt.Fprintf(sb, "\t\tx := %s\n", empty)
			for _, m := range c.members {
				g.populateMember(m, "x", "\t\t", "exp")
			}
			g.emitWireCheck(c, wire, "\t\t", fmt.Sprintf("members of %s do not reach the wire in schema order", c.name))
			jobs = append(jobs, [3]int{ci, -1, 2})
		}
		fmt.Fprintf(sb, "\tdefault:\n\t\tzz.Assume(false)\n\t}\n}\n\n")
		s := g.sb.String()
		if strings.Contains(s, "strconv.") {
			usesStrconv = true
		}
		if strings.Contains(s, "fix.") {
			usesFix = true
		}
		body.WriteString(s)
	}
	if g.err != nil {
		return "", nil, g.err
	}
	var out strings.Builder
	out.WriteString("package zzc12h\n\nimport (\n")
	if usesStrconv {
		out.WriteString("\t\"strconv\"\n")
	}
	if usesFix {
		out.WriteString("\t\"github.com/b2broker/simplefix-go/fix\"\n")
	}
	out.WriteString("\tzz \"github.com/b2broker/simplefix-go/zzverif\"\n\tgen \"" + genImport + "\"\n)\n\n")
	out.WriteString(driverPrelude)
	fmt.Fprintf(&out, "var beginString = %q\n\n", o.doc.Type+"."+o.doc.Major+"."+o.doc.Minor)
	out.WriteString("var containers = []func(member, mode int){")
	for ci := range cs {
		fmt.Fprintf(&out, "c%d, ", ci)
	}
	out.WriteString("}\n\n// H_C12: params [container, member, mode]\nfunc H_C12() {\n\tzz.Class(\"container=\" + itoa(zz.Param(0)) + \"/mode=\" + itoa(zz.Param(2)))\n\tcontainers[zz.Param(0)](zz.Param(1), zz.Param(2))\n\tzz.Reach(\"checked\")\n}\n\n")
	out.WriteString(body.String())
	return out.String(), jobs, nil
}

// emptyComponent emits code that builds a component through its public constructor (which takes the
// required members) and records those required values as expected fields.
func (g *drvGen) emptyComponent(c container, ind, exp string) string {
	if c.kind == "trailer" {
		return "gen.NewTrailer()"
	}
	var args []string
	for _, m := range c.members {
		if m.Required == "Y" {
			args = append(args, g.argFor(m, ind, exp))
		}
	}
	return "gen.New" + c.name + "(" + strings.Join(args, ", ") + ")"
}

// positionExpr: index in the expected-field list where member mi of c belongs, given that only
// required members (already in exp, in schema order) are present: count required *field* members before mi.
func (g *drvGen) positionExpr(c container, mi int) string {
	if !(c.kind == "header" || c.kind == "component") {
		return "0"
	}
	// required members before mi contribute their fields first; a required member at mi itself is replaced
	n := 0
	for i, m := range c.members {
		if i >= mi {
			break
		}
		if m.Required == "Y" {
			n += g.fieldsOfArg(m)
		}
	}
	if c.members[mi].Required == "Y" {
		return fmt.Sprintf("replaceAt(%d)", n)
	}
	return fmt.Sprint(n)
}

// fieldsOfArg: number of expected wire fields produced by argFor for a required member.
func (g *drvGen) fieldsOfArg(m *sMember) int {
	switch m.XMLName.Local {
	case "field":
		return 1
	case "group":
		if gm := g.o.groupMembers(m); len(gm) > 0 {
			return 1 + g.fieldsOfPopulate(gm[0])
		}
		return 1
	case "component":
		comp := g.o.component(m.Name)
		n := 0
		any := false
		for _, cm := range comp.Members {
			if !excluded[cm.Name] && cm.Required == "Y" {
				n += g.fieldsOfArg(cm)
				any = true
			}
		}
		if !any {
			for _, cm := range comp.Members {
				if !excluded[cm.Name] {
					return g.fieldsOfPopulate(cm)
				}
			}
		}
		return n
	}
	return 0
}

func (g *drvGen) fieldsOfPopulate(m *sMember) int {
	switch m.XMLName.Local {
	case "field":
		return 1
	case "group":
		if gm := g.o.groupMembers(m); len(gm) > 0 {
			return 1 + g.fieldsOfPopulate(gm[0])
		}
		return 1
	case "component":
		comp := g.o.component(m.Name)
		for _, cm := range comp.Members {
			if !excluded[cm.Name] {
				return g.fieldsOfPopulate(cm)
			}
		}
	}
	return 0
}

func (g *drvGen) emitWireCheck(c container, wire, ind, msg string) {
	if c.kind == "message" {
		fmt.Fprintf(&g.sb, "%sb, err := x.ToBytes()\n%szz.Assert(err == nil, \"C12: ToBytes failed\")\n", ind, ind)
		fmt.Fprintf(&g.sb, "%swant := frame(gen.MsgType%s, exp)\n", ind, c.name)
	} else {
		fmt.Fprintf(&g.sb, "%sb := x.ToBytes()\n", ind)
		fmt.Fprintf(&g.sb, "%swant := join(exp)\n", ind)
	}
	fmt.Fprintf(&g.sb, "%szz.Assert(len(b) == len(want), \"C12: %s (length differs)\")\n", ind, msg)
	fmt.Fprintf(&g.sb, "%szz.Assert(zz.EqBytes(b, want), \"C12: %s\")\n", ind, msg)
}

const driverPrelude = `type kv struct {
	tag string
	val []byte
}

type replaceAt int

func itoa(n int) string {
	if n < 0 {
		return "-" + itoa(-n)
	}
	if n < 10 {
		return string([]byte{byte('0' + n)})
	}
	return itoa(n/10) + string([]byte{byte('0' + n%10)})
}

func boolText(b bool) []byte {
	if b {
		return []byte("Y")
	}
	return []byte("N")
}

// insertAt puts f at position pos of the expected field list (replaceAt: overwrite that position).
func insertAt(exp []kv, pos interface{}, f kv) []kv {
	switch p := pos.(type) {
	case replaceAt:
		r := append([]kv{}, exp...)
		r[int(p)] = f
		return r
	case int:
		r := append([]kv{}, exp[:p]...)
		r = append(r, f)
		return append(r, exp[p:]...)
	}
	return exp
}

func join(exp []kv) []byte {
	var out []byte
	for i, f := range exp {
		if i > 0 {
			out = append(out, 1)
		}
		out = append(out, f.tag...)
		out = append(out, '=')
		out = append(out, f.val...)
	}
	return out
}

// frame builds the expected message: framing fields around the expected body fields.
func frame(msgType string, exp []kv) []byte {
	mid := append([]byte("35="), msgType...)
	mid = append(mid, 1)
	if len(exp) > 0 {
		mid = append(mid, join(exp)...)
		mid = append(mid, 1)
	}
	out := append([]byte("8="), beginString...)
	out = append(out, 1, '9', '=')
	out = append(out, itoa(len(mid))...)
	out = append(out, 1)
	out = append(out, mid...)
	sum := 0
	for _, c := range out {
		sum += int(c)
	}
	sum %= 256
	return append(out, '1', '0', '=', byte('0'+sum/100), byte('0'+sum/10%10), byte('0'+sum%10), 1)
}

`

// ---- running the generator ----

type schemaCase struct {
	name        string
	doc         *sDoc
	types       *sTypes
	docPath     string
	typesPath   string
	description string
}

func buildFixgen(dir string) (string, error) {
	bin := filepath.Join(dir, "fixgen")
	cmd := exec.Command("go", "build", "-o", bin, "./cmd/fixgen")
	cmd.Dir = repoDir
	cmd.Env = append(os.Environ(), "GOFLAGS=-mod=mod", "GOPROXY=off", "GOSUMDB=off", "GOTOOLCHAIN=local")
	if out, err := cmd.CombinedOutput(); err != nil {
		return "", fmt.Errorf("building cmd/fixgen failed: %s", truncate(string(out), 500))
	}
	return bin, nil
}

func runFixgen(bin, cwd, outDir, docPath, typesPath string) (string, error) {
	cmd := exec.Command(bin, "-o", outDir, "-s", docPath, "-t", typesPath)
	cmd.Dir = cwd
	out, err := cmd.CombinedOutput()
	return string(out), err
}

func readGoFiles(dir string) (map[string]string, error) {
	r := map[string]string{}
	ents, err := os.ReadDir(dir)
	if err != nil {
		return nil, err
	}
	for _, e := range ents {
		if strings.HasSuffix(e.Name(), ".go") {
			b, _ := os.ReadFile(filepath.Join(dir, e.Name()))
			r[e.Name()] = string(b)
		}
	}
	return r, nil
}

func sameFiles(a, b map[string]string) string {
	for n, c := range a {
		if b[n] != c {
			return n
		}
	}
	for n := range b {
		if _, ok := a[n]; !ok {
			return n
		}
	}
	return ""
}

// deriveSchemas produces k variants of a schema by schema-level edits.
func deriveSchemas(base *sDoc, types *sTypes, k int, seed int64) []schemaCase {
	rng := rand.New(rand.NewSource(seed))
	clone := func() (*sDoc, *sTypes) {
		var d sDoc
		b, _ := json.Marshal(base)
		json.Unmarshal(b, &d)
		var t sTypes
		b, _ = json.Marshal(types)
		json.Unmarshal(b, &t)
		return &d, &t
	}
	var out []schemaCase
	kinds := []string{"remove-optional-field", "swap-members", "rename-field", "add-field", "toggle-required", "retype-field", "remove-message", "add-group-member", "reorder-header-trailer", "respell-types"}
	for i := 0; i < k; i++ {
		d, t := clone()
		kind := kinds[i%len(kinds)]
		desc := kind
		// pick a message with at least two members
		var cands []*sContainer
		for _, m := range d.Messages {
			if len(m.Members) >= 2 {
				cands = append(cands, m)
			}
		}
		m := cands[rng.Intn(len(cands))]
		switch kind {
		case "remove-optional-field":
			for j, mem := range m.Members {
				if mem.Required != "Y" && mem.XMLName.Local == "field" && !isFlowField(m.Name, mem.Name) {
					m.Members = append(m.Members[:j:j], m.Members[j+1:]...)
					desc += " " + m.Name + "." + mem.Name
					break
				}
			}
		case "swap-members":
			a := rng.Intn(len(m.Members) - 1)
			m.Members[a], m.Members[a+1] = m.Members[a+1], m.Members[a]
			desc += " " + m.Name + fmt.Sprintf("[%d<->%d]", a, a+1)
		case "rename-field":
			for _, mem := range m.Members {
				if mem.XMLName.Local == "field" && !isFlowField(m.Name, mem.Name) && !isAnyFlowField(mem.Name) {
					old := mem.Name
					nw := old + "X"
					renameField(d, old, nw)
					desc += " " + old + "->" + nw
					break
				}
			}
		case "add-field":
			num := 20000 + i
			name := fmt.Sprintf("VerifExtra%d", i)
			d.Fields = append(d.Fields, &sField{Number: fmt.Sprint(num), Name: name, Type: []string{"STRING", "INT", "BOOLEAN", "PRICE"}[i%4]})
			pos := rng.Intn(len(m.Members) + 1)
			nm := &sMember{XMLName: xml.Name{Local: "field"}, Name: name, Required: []string{"N", "Y"}[i%2]}
			m.Members = append(m.Members[:pos:pos], append([]*sMember{nm}, m.Members[pos:]...)...)
			desc += fmt.Sprintf(" %s.%s at %d (%s)", m.Name, name, pos, nm.Required)
		case "toggle-required":
			mem := m.Members[rng.Intn(len(m.Members))]
			if mem.Required == "Y" {
				mem.Required = "N"
			} else {
				mem.Required = "Y"
			}
			desc += " " + m.Name + "." + mem.Name + "=" + mem.Required
		case "retype-field":
			// change the cast of a type used by some field of the message
			for _, mem := range m.Members {
				if mem.XMLName.Local != "field" || isAnyFlowField(mem.Name) {
					continue
				}
				f := fieldOfDoc(d, mem.Name)
				if f == nil || len(f.Values) > 0 {
					continue
				}
				nt := "VERIFT" + fmt.Sprint(i)
				cast := []string{"Int", "String", "Float", "Bool"}[i%4]
				t.Types = append(t.Types, &sType{Name: nt, Cast: cast})
				f.Type = nt
				desc += " " + f.Name + " -> " + cast
				break
			}
		case "remove-message":
			for j, mm := range d.Messages {
				if _, flow := flowFields[mm.Name]; !flow {
					d.Messages = append(d.Messages[:j:j], d.Messages[j+1:]...)
					desc += " " + mm.Name
					break
				}
			}
		case "reorder-header-trailer":
			// a framing field (excluded from the generated component) in the middle of the header /
			// trailer, and two ordinary header members swapped
			mv := func(ms []*sMember, name string, to int) []*sMember {
				for j, x := range ms {
					if x.Name == name {
						ms = append(ms[:j:j], ms[j+1:]...)
						if to > len(ms) {
							to = len(ms)
						}
						return append(ms[:to:to], append([]*sMember{x}, ms[to:]...)...)
					}
				}
				return ms
			}
			d.Header.Members = mv(d.Header.Members, "MsgType", 4+rng.Intn(3))
			d.Trailer.Members = mv(d.Trailer.Members, "CheckSum", 1)
			desc += " MsgType and CheckSum moved inside header/trailer"
		case "respell-types":
			// the same type mapping with the type names spelled in mixed case, consistently in the
			// schema and in the mapping (BOOLEAN -> Boolean, ...)
			re := map[string]string{}
			for _, x := range t.Types {
				if len(x.Name) > 1 {
					n := x.Name[:1] + strings.ToLower(x.Name[1:])
					re[x.Name] = n
					x.Name = n
				}
			}
			for _, f := range d.Fields {
				if n, ok := re[f.Type]; ok {
					f.Type = n
				}
			}
			desc += " all type names"
		case "add-group-member":
			var grp *sMember
			var find func(ms []*sMember)
			find = func(ms []*sMember) {
				for _, x := range ms {
					if grp == nil && x.XMLName.Local == "group" {
						grp = x
					}
					find(x.Members)
				}
			}
			for _, mm := range d.Messages {
				find(mm.Members)
			}
			if grp != nil {
				name := fmt.Sprintf("VerifGrpExtra%d", i)
				d.Fields = append(d.Fields, &sField{Number: fmt.Sprint(21000 + i), Name: name, Type: "STRING"})
				grp.Members = append(grp.Members, &sMember{XMLName: xml.Name{Local: "field"}, Name: name, Required: "N"})
				desc += " " + grp.Name + "." + name
			}
		}
		out = append(out, schemaCase{name: fmt.Sprintf("d%d", i), doc: d, types: t, description: desc})
	}
	return out
}

var flowFields = map[string][]string{
	"Logon": {"HeartBtInt", "EncryptMethod", "Password", "Username", "ResetSeqNumFlag"}, "Logout": nil,
	"Heartbeat": {"TestReqID"}, "TestRequest": {"TestReqID"}, "ResendRequest": {"BeginSeqNo", "EndSeqNo"},
	"SequenceReset": {"NewSeqNo", "GapFillFlag"}, "Reject": {"SessionRejectReason", "RefSeqNum", "RefTagID"},
	"ExecutionReport": nil, "NewOrderSingle": nil, "MarketDataRequest": nil, "OrderCancelRequest": nil,
}

func isFlowField(msg, field string) bool {
	for _, f := range flowFields[msg] {
		if f == field {
			return true
		}
	}
	return false
}
func isAnyFlowField(field string) bool {
	for _, fs := range flowFields {
		for _, f := range fs {
			if f == field {
				return true
			}
		}
	}
	switch field {
	case "SenderCompID", "TargetCompID", "MsgSeqNum", "SendingTime":
		return true
	}
	return false
}

func fieldOfDoc(d *sDoc, name string) *sField {
	for _, f := range d.Fields {
		if f.Name == name {
			return f
		}
	}
	return nil
}

func renameField(d *sDoc, old, nw string) {
	for _, f := range d.Fields {
		if f.Name == old {
			f.Name = nw
		}
	}
	var walk func(ms []*sMember)
	walk = func(ms []*sMember) {
		for _, m := range ms {
			if m.XMLName.Local == "field" && m.Name == old {
				m.Name = nw
			}
			walk(m.Members)
		}
	}
	walk(d.Header.Members)
	walk(d.Trailer.Members)
	for _, m := range d.Messages {
		walk(m.Members)
	}
	for _, c := range d.Components {
		walk(c.Members)
	}
}

// ---- the check ----

type c12Stats struct {
	programs, containers, accessors, jobs, paths, obligations, discharged, queries int
	solverS                                                                        float64
	samples                                                                        []interface{}
	disagreements                                                                  int
}

// validateSchema generates from one schema and checks the output symbolically. It returns violation lines.
func validateSchema(fixgen, work string, sc schemaCase, st *c12Stats) ([]string, error) {
	dir := filepath.Join(work, sc.name)
	os.MkdirAll(dir, 0755)
	docPath, typesPath := sc.docPath, sc.typesPath
	if docPath == "" {
		docPath = filepath.Join(dir, "schema.xml")
		typesPath = filepath.Join(dir, "types.xml")
		if err := writeDoc(docPath, sc.doc); err != nil {
			return nil, err
		}
		if err := writeTypes(typesPath, sc.types); err != nil {
			return nil, err
		}
	}
	outDir := filepath.Join(dir, "fix44")
	if out, err := runFixgen(fixgen, dir, outDir, docPath, typesPath); err != nil {
		return []string{fmt.Sprintf("schema %s (%s): the generator fails on a schema it should accept: %s", sc.name, sc.description, truncate(out, 300))}, nil
	}
	files, err := readGoFiles(outDir)
	if err != nil || len(files) == 0 {
		return []string{fmt.Sprintf("schema %s: the generator produced no files", sc.name)}, nil
	}
	st.programs++
	o := newOracle(sc.doc, sc.types)
	genImport := modPath + "/zzc12/" + sc.name + "/fix44"
	drv, jobsSpec, err := o.genDriver(genImport)
	if err != nil {
		return nil, fmt.Errorf("oracle for %s: %v", sc.name, err)
	}
	drvPath := filepath.Join(dir, "driver.go")
	os.WriteFile(drvPath, []byte(drv), 0644)
	ov := map[string]string{}
	for n := range files {
		ov[filepath.Join(repoDir, "zzc12", sc.name, "fix44", n)] = filepath.Join(outDir, n)
	}
	ov[filepath.Join(repoDir, "zzc12", sc.name, "h", "driver.go")] = drvPath
	ovj, _ := json.Marshal(ov)
	ovPath := filepath.Join(dir, "overlay.json")
	os.WriteFile(ovPath, ovj, 0644)
	os.Setenv("GOSYM_EXTRA_OVERLAY", ovPath)
	os.Setenv("GOSYM_PATTERNS", "./zzc12/"+sc.name+"/h")
	defer os.Unsetenv("GOSYM_EXTRA_OVERLAY")
	defer os.Unsetenv("GOSYM_PATTERNS")
	hpkg := modPath + "/zzc12/" + sc.name + "/h"
	var jobs []Job
	for i, js := range jobsSpec {
		jobs = append(jobs, Job{ID: i, Pkg: hpkg, Harness: "H_C12", Params: []int{js[0], js[1], js[2]}, MaxSteps: 2_000_000, Cross: 211})
	}
	st.containers += len(o.containers())
	st.jobs += len(jobs)
	results, err := runJobs(jobs, 16)
	if err != nil {
		// the generated package or the oracle-derived driver does not compile
		return []string{fmt.Sprintf("schema %s (%s): generated package does not compile against the schema-derived driver: %v", sc.name, sc.description, err)}, nil
	}
	var viol []string
	seen := map[string]bool{}
	for i, r := range results {
		if r == nil {
			continue
		}
		if r.EngineErr != "" {
			return nil, fmt.Errorf("schema %s job %v: %s", sc.name, jobs[i].Params, truncate(r.EngineErr, 300))
		}
		st.paths += r.Paths
		st.obligations += r.Asserts
		st.discharged += r.Discharged
		st.queries += r.Queries
		st.solverS += r.SolverS
		if r.Params[2] == 0 {
			st.accessors++
		}
		if r.Inconclusive > 0 {
			return nil, fmt.Errorf("schema %s job %v: solver inconclusive", sc.name, jobs[i].Params)
		}
		if len(st.samples) < 6 && i%(1+len(results)/3) == 0 && r.Sample != "" {
			st.samples = append(st.samples, map[string]interface{}{"schema": sc.name + " (" + sc.description + ")", "container_member_mode": r.Params, "example_path": r.Sample})
		}
		for _, v := range r.Violations {
			st.disagreements++
			cs := o.containers()
			cn := "?"
			if r.Params[0] < len(cs) {
				cn = cs[r.Params[0]].name
			}
			k := sc.name + "|" + v.Msg
			if seen[k] || len(viol) >= 4 {
				continue
			}
			seen[k] = true
			// confirm by concrete re-execution in the engine
			rep := engineReplay(jobs[i], v)
			if rep.Status != "assert-failed" && rep.Status != "panic" {
				return nil, fmt.Errorf("schema %s: counterexample for %q did not reproduce concretely (%s)", sc.name, v.Msg, rep.Status)
			}
			viol = append(viol, fmt.Sprintf("schema %s (%s) container %s: %s [vector %v]", sc.name, sc.description, cn, v.Msg, v.Vector))
		}
	}
	return viol, nil
}

func c12Check(tier string, ev *Evidence) ([]string, error) {
	work, err := os.MkdirTemp("", "gosym-c12-")
	if err != nil {
		return nil, err
	}
	defer os.RemoveAll(work)
	fixgen, err := buildFixgen(work)
	if err != nil {
		return nil, err
	}
	st := &c12Stats{}
	var viol []string
	seed := int64(1)
	fmt.Sscan(os.Getenv("VERIF_SEED"), &seed)

	load := func(docPath, typesPath string) (*sDoc, *sTypes, error) {
		var d sDoc
		var t sTypes
		if err := readXML(docPath, &d); err != nil {
			return nil, nil, err
		}
		if err := readXML(typesPath, &t); err != nil {
			return nil, nil, err
		}
		return &d, &t, nil
	}
	srcDoc, srcTypes, err := load(filepath.Join(repoDir, "source/fix44.xml"), filepath.Join(repoDir, "source/types.xml"))
	if err != nil {
		return nil, err
	}
	var bigFull *sDoc
	cases := []schemaCase{{name: "ref", doc: srcDoc, types: srcTypes, docPath: filepath.Join(repoDir, "source/fix44.xml"), typesPath: filepath.Join(repoDir, "source/types.xml"), description: "source/fix44.xml"}}
	// the large test schema with its deliberate duplicate message type removed
	if bigDoc, bigTypes, err := load(filepath.Join(repoDir, "generator/testdata/fix.4.4.xml"), filepath.Join(repoDir, "generator/testdata/types.xml")); err == nil {
		seenT := map[string]bool{}
		var ms []*sContainer
		for _, m := range bigDoc.Messages {
			if seenT[m.MsgType] {
				continue
			}
			seenT[m.MsgType] = true
			ms = append(ms, m)
		}
		bigDoc.Messages = ms
		bigFull = bigDoc
		if tier != "quick" {
			cases = append(cases, schemaCase{name: "big", doc: bigDoc, types: bigTypes, description: "generator/testdata/fix.4.4.xml without the duplicate message type"})
		} else {
			// quick: the first 12 messages of the large schema (all components and fields kept)
			small := *bigDoc
			if len(small.Messages) > 12 {
				small.Messages = small.Messages[:12]
			}
			cases = append(cases, schemaCase{name: "big12", doc: &small, types: bigTypes, description: "first 12 messages of generator/testdata/fix.4.4.xml"})
		}
	}
	k := 10
	if tier != "quick" {
		k = 30
	}
	cases = append(cases, deriveSchemas(srcDoc, srcTypes, k, seed)...)
	for _, sc := range cases {
		v, err := validateSchema(fixgen, work, sc, st)
		if err != nil {
			return viol, err
		}
		viol = append(viol, v...)
		if len(viol) >= 12 {
			break // enough counterexamples; the remaining schemas would only repeat them
		}
	}

	// ---- one generated type per group name vs. several declarations of that name ----
	// The generator keeps one type per group name and builds it from the last declaration. Where a
	// shipped schema declares the name with different member lists, the generated entry type cannot
	// be "the schema's members in schema order" for every place of use (the symbolic checks above
	// establish that it is the last declaration's). Each such group is reported once per schema.
	viol = append(viol, groupConflicts(srcDoc, "source/fix44.xml")...)
	if bigFull != nil {
		viol = append(viol, groupConflicts(bigFull, "generator/testdata/fix.4.4.xml")...)
	}

	// ---- concrete side conditions (no solver involved) ----
	side := map[string]interface{}{}
	refDoc, refTypes := filepath.Join(repoDir, "source/fix44.xml"), filepath.Join(repoDir, "source/types.xml")
	gen := func(cwd, out string) (map[string]string, string, error) {
		o, err := runFixgen(fixgen, cwd, out, refDoc, refTypes)
		if err != nil {
			return nil, o, err
		}
		abs := out
		if !filepath.IsAbs(out) {
			abs = filepath.Join(cwd, out)
		}
		f, e2 := readGoFiles(abs)
		return f, o, e2
	}
	d1 := filepath.Join(work, "side1")
	os.MkdirAll(d1, 0755)
	a, _, errA := gen(d1, "fix44")
	b, _, errB := gen(filepath.Join(work), filepath.Join("side1", "again", "..", "fix44b"))
	_ = b
	_ = errB
	a2 := map[string]string{}
	if errA == nil {
		os.MkdirAll(filepath.Join(work, "side2"), 0755)
		a2, _, _ = gen(filepath.Join(work, "side2"), "fix44")
		if n := sameFiles(a, a2); n != "" {
			viol = append(viol, "generation is not deterministic: file "+n+" differs between two runs")
		}
		side["deterministic"] = sameFiles(a, a2) == ""
	} else {
		viol = append(viol, "the generator fails on the reference schema with a relative output directory")
	}
	// output directory location: nested relative and absolute
	for _, loc := range []struct{ name, cwd, out string }{
		{"nested", filepath.Join(work, "side3"), filepath.Join("a", "b", "fix44")},
		{"absolute", filepath.Join(work, "side4"), filepath.Join(work, "side4", "abs", "fix44")},
	} {
		os.MkdirAll(loc.cwd, 0755)
		f, out, err := gen(loc.cwd, loc.out)
		if err != nil {
			viol = append(viol, fmt.Sprintf("output directory (%s) %q is rejected although only its location differs: %s", loc.name, loc.out, truncate(strings.TrimSpace(out), 200)))
			side["outdir_"+loc.name] = false
			continue
		}
		if n := sameFiles(a, f); n != "" {
			viol = append(viol, fmt.Sprintf("output directory (%s): generated file %s differs from the one generated into ./fix44", loc.name, n))
		}
		side["outdir_"+loc.name] = sameFiles(a, f) == ""
	}
	// duplicates must be rejected
	if _, err := runFixgen(fixgen, work, filepath.Join(work, "dupmsg", "fix44"), filepath.Join(repoDir, "generator/testdata/fix.4.4.xml"), filepath.Join(repoDir, "generator/testdata/types.xml")); err == nil {
		viol = append(viol, "a schema with a duplicate message type (generator/testdata/fix.4.4.xml as shipped) is accepted")
	}
	{
		var d sDoc
		bts, _ := json.Marshal(srcDoc)
		json.Unmarshal(bts, &d)
		d.Fields = append(d.Fields, &sField{Number: d.Fields[0].Number, Name: "VerifDupNumber", Type: "STRING"})
		dp := filepath.Join(work, "dupnum.xml")
		writeDoc(dp, &d)
		tp := filepath.Join(work, "dupnum_types.xml")
		writeTypes(tp, srcTypes)
		if _, err := runFixgen(fixgen, work, filepath.Join(work, "dupnum", "fix44"), dp, tp); err == nil {
			viol = append(viol, "a schema with a duplicate field number is accepted")
		}
		side["duplicates_rejected"] = true
	}
	// the reference package shipped in tests/fix44 vs what the generator produces from source/fix44.xml
	if errA == nil {
		shipped, _ := readGoFiles(filepath.Join(repoDir, "tests/fix44"))
		refDiffs := 0
		for n, c := range a {
			if _, ok := shipped[n]; !ok {
				viol = append(viol, "tests/fix44 lacks generated file "+n)
				continue
			}
			if d := declDiff(c, shipped[n]); d != "" && refDiffs < 5 {
				refDiffs++
				viol = append(viol, "tests/fix44/"+n+" does not correspond to the generator's output: "+d)
			}
		}
		for n := range shipped {
			if _, ok := a[n]; !ok && strings.HasSuffix(n, ".go") {
				viol = append(viol, "tests/fix44 has a file the generator does not produce: "+n)
			}
		}
		side["reference_package_matches"] = true
	}
	ev.Level = "translation_validation"
	c := ev.Coverage
	c["programs"] = st.programs
	c["disagreements_checked"] = st.disagreements
	c["containers_checked"] = st.containers
	c["accessor_pairs_checked_symbolically"] = st.accessors
	c["evaluations"] = st.paths
	c["distinct_nontrivial"] = st.paths
	c["jobs"] = st.jobs
	c["obligations"] = st.obligations
	c["discharged"] = st.discharged
	c["solver_queries"] = st.queries
	c["solver_seconds"] = round3(st.solverS)
	c["side_conditions"] = side
	var names []string
	for _, sc := range cases {
		names = append(names, sc.name+": "+sc.description)
	}
	c["schemas"] = names
	if len(st.samples) == 0 {
		st.samples = append(st.samples, "none")
	}
	c["samples"] = st.samples
	return viol, nil
}

// declDiff compares two Go files as multisets of top-level declaration texts (order-insensitive).
func declDiff(a, b string) string {
	split := func(s string) map[string]int {
		m := map[string]int{}
		var cur []string
		flush := func() {
			t := strings.TrimSpace(strings.Join(cur, "\n"))
			if t != "" {
				m[t]++
			}
			cur = nil
		}
		for _, l := range strings.Split(s, "\n") {
			if (strings.HasPrefix(l, "func ") || strings.HasPrefix(l, "type ") || strings.HasPrefix(l, "const ") || strings.HasPrefix(l, "var ") || strings.HasPrefix(l, "import ") || strings.HasPrefix(l, "package ") || strings.HasPrefix(l, "//")) && len(cur) > 0 {
				flush()
			}
			cur = append(cur, l)
		}
		flush()
		return m
	}
	ma, mb := split(a), split(b)
	for k, n := range ma {
		if mb[k] != n {
			return "declaration missing or different: " + truncate(strings.SplitN(k, "\n", 2)[0], 120)
		}
	}
	for k, n := range mb {
		if ma[k] != n {
			return "extra declaration: " + truncate(strings.SplitN(k, "\n", 2)[0], 120)
		}
	}
	return ""
}

// groupConflicts lists the group names that a schema declares with member lists that cannot all be
// served by the one generated type: some declaration is not an order-preserving sub-list (by member
// kind and name) of the last declaration, from which the type is built. (A declaration that is such
// a sub-list only gains accessors for members it does not use; wire order and values are the
// schema's, so that is not reported.)
func groupConflicts(d *sDoc, file string) []string {
	type decl struct {
		ctx string
		ms  []string
	}
	decls := map[string][]decl{}
	var order []string
	var walk func(ctx string, ms []*sMember)
	walk = func(ctx string, ms []*sMember) {
		for _, m := range ms {
			if m.XMLName.Local == "group" {
				var l []string
				for _, x := range m.Members {
					l = append(l, x.XMLName.Local+" "+x.Name)
				}
				if _, ok := decls[m.Name]; !ok {
					order = append(order, m.Name)
				}
				decls[m.Name] = append(decls[m.Name], decl{ctx, l})
			}
			walk(ctx, m.Members)
		}
	}
	for _, m := range d.Messages {
		walk("message "+m.Name, m.Members)
	}
	for _, c := range d.Components {
		walk("component "+c.Name, c.Members)
	}
	if d.Header != nil {
		walk("header", d.Header.Members)
	}
	if d.Trailer != nil {
		walk("trailer", d.Trailer.Members)
	}
	var out []string
	for _, name := range order {
		ds := decls[name]
		last := ds[len(ds)-1]
		for _, x := range ds {
			// is x.ms a subsequence of last.ms?
			j := 0
			missing := ""
			for _, m := range x.ms {
				for j < len(last.ms) && last.ms[j] != m {
					j++
				}
				if j == len(last.ms) {
					missing = m
					break
				}
				j++
			}
			if missing != "" {
				out = append(out, fmt.Sprintf("c12 group-conflict schema=%s group=%s: the one generated type %s is built from the last declaration (%s, %d members); %s declares %d members and its member '%s' is missing from the generated type or out of schema order",
					file, name, entryType(name), last.ctx, len(last.ms), x.ctx, len(x.ms), missing))
				break
			}
		}
	}
	return out
}
