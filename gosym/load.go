package main

// Front end: load /repo's current working tree with the harness files overlaid in-package,
// build SSA for everything (dependencies included).

import (
	"encoding/json"
	"fmt"
	"go/types"
	"os"
	"path/filepath"
	"sort"
	"strings"

	"golang.org/x/tools/go/packages"
	"golang.org/x/tools/go/ssa"
	"golang.org/x/tools/go/ssa/ssautil"
)

var repoDir = "/repo"
var verifDir = "/verif"

const modPath = "github.com/b2broker/simplefix-go"

type World struct {
	prog  *ssa.Program
	pkgs  map[string]*ssa.Package // by import path
	inits []*ssa.Function
}

// overlayFiles maps virtual paths under /repo to real files under /verif/harness.
// Layout: /verif/harness/<relative package dir or "root">/<name>.go -> /repo/<dir>/zz_verif_<name>.go
func overlayFiles() map[string]string {
	m := map[string]string{}
	base := filepath.Join(verifDir, "harness")
	filepath.Walk(base, func(p string, info os.FileInfo, err error) error {
		if err != nil || info.IsDir() || !strings.HasSuffix(p, ".go") {
			return nil
		}
		rel, _ := filepath.Rel(base, p)
		dir := filepath.Dir(rel)
		if dir == "root" {
			dir = "."
		} else if strings.HasPrefix(dir, "root/") {
			dir = dir[5:]
		}
		name := filepath.Base(rel)
		if strings.HasPrefix(dir, "gen") { // generated per run elsewhere
			return nil
		}
		m[filepath.Join(repoDir, dir, "zz_verif_"+name)] = p
		return nil
	})
	return m
}

func harnessPkgDirs() []string {
	seen := map[string]bool{}
	for v := range overlayFiles() {
		d, _ := filepath.Rel(repoDir, filepath.Dir(v))
		seen["./"+d] = true
	}
	var r []string
	for d := range seen {
		r = append(r, d)
	}
	sort.Strings(r)
	return r
}

func loadWorld(extraOverlay map[string][]byte, patterns []string) (*World, error) {
	ov := map[string][]byte{}
	for virt, real := range overlayFiles() {
		if strings.HasSuffix(real, "_test.go") {
			continue
		}
		b, err := os.ReadFile(real)
		if err != nil {
			return nil, err
		}
		ov[virt] = b
	}
	for k, v := range extraOverlay {
		ov[k] = v
	}
	if p := os.Getenv("GOSYM_EXTRA_OVERLAY"); p != "" {
		var m map[string]string
		if b, err := os.ReadFile(p); err == nil && json.Unmarshal(b, &m) == nil {
			for virt, real := range m {
				if c, err := os.ReadFile(real); err == nil {
					ov[virt] = c
				}
			}
		}
	}
	if p := os.Getenv("GOSYM_PATTERNS"); p != "" && len(patterns) == 0 {
		patterns = strings.Fields(p)
	}
	cfg := &packages.Config{Mode: packages.LoadAllSyntax, Dir: repoDir, Overlay: ov,
		Env: append(os.Environ(), "GOFLAGS=-mod=mod", "GOPROXY=off", "GOSUMDB=off", "GOTOOLCHAIN=local")}
	if len(patterns) == 0 {
		patterns = harnessPkgDirs()
	}
	pkgs, err := packages.Load(cfg, patterns...)
	if err != nil {
		return nil, err
	}
	nerr := 0
	packages.Visit(pkgs, nil, func(p *packages.Package) {
		for _, e := range p.Errors {
			if isModulePath(p.PkgPath) {
				fmt.Fprintln(os.Stderr, "load error:", e)
				nerr++
			}
		}
	})
	if nerr > 0 {
		return nil, fmt.Errorf("%d load errors (the tree does not compile with the harness overlay)", nerr)
	}
	prog, _ := ssautil.AllPackages(pkgs, ssa.InstantiateGenerics)
	prog.Build()
	w := &World{prog: prog, pkgs: map[string]*ssa.Package{}}
	for _, p := range prog.AllPackages() {
		w.pkgs[p.Pkg.Path()] = p
	}
	look := func(pkg, name string) types.Type {
		p := w.pkgs[pkg]
		if p == nil {
			return nil
		}
		if m := p.Members[name]; m != nil {
			return m.Type()
		}
		return nil
	}
	timeType = look("time", "Time")
	if t := look("time", "ParseError"); t != nil {
		parseErrPtr = types.NewPointer(t)
	}
	if t := look("strconv", "NumError"); t != nil {
		numErrorPtr = types.NewPointer(t)
	}
	if t := look("errors", "errorString"); t != nil {
		errStringPtr = types.NewPointer(t)
	}
	ctxNamedType = look("context", "Context")
	if ctxNamedType == nil {
		ctxNamedType = types.Typ[types.UnsafePointer]
	}
	return w, nil
}

func (w *World) harness(pkg, name string) *ssa.Function {
	p := w.pkgs[pkg]
	if p == nil {
		return nil
	}
	return p.Func(name)
}

// initPackages runs the init functions of the module's packages that were loaded (dependencies are
// initialised transitively by the generated init code; non-module stdlib inits are skipped except
// the whitelisted ones).
func (w *World) initPackages(in *Interp) {
	if w.inits == nil {
		var paths []string
		for p := range w.pkgs {
			if isModulePath(p) {
				paths = append(paths, p)
			}
		}
		sort.Strings(paths)
		for _, p := range paths {
			if f := w.pkgs[p].Func("init"); f != nil {
				w.inits = append(w.inits, f)
			}
		}
	}
	// context.Canceled
	if errCanceled == nil {
		var cell Value = Struct{mkStr("context canceled")}
		errCanceled = Iface{t: errStringPtr, v: &cell}
	}
	for _, f := range w.inits {
		in.call(f, nil, nil)
	}
}
