package main

// C20: candidates from the symbolic lockset analysis are confirmed (or not) by running a native
// scenario under the Go race detector.

import (
	"encoding/json"
	"fmt"
	"os"
	"os/exec"
	"path/filepath"
	"regexp"
	"sort"
	"strings"
	"time"
)

var raceFrameRe = regexp.MustCompile(`^\s+(/[^\s:]+\.go):(\d+)`)

// raceScenario builds the session package's test binary with -race (harness overlay included) and
// runs TestVerifRace for both roles. It returns one line per distinct data race in library code.
func raceScenario(ev *Evidence) ([]string, error) {
	dir, err := os.MkdirTemp("", "gosym-race-")
	if err != nil {
		return nil, err
	}
	defer os.RemoveAll(dir)
	ov := map[string]string{}
	for virt, real := range overlayFiles() {
		ov[virt] = real
	}
	ovj, _ := json.Marshal(map[string]interface{}{"Replace": ov})
	of := filepath.Join(dir, "overlay.json")
	os.WriteFile(of, ovj, 0644)
	bin := filepath.Join(dir, "race.test")
	t0 := time.Now()
	cmd := exec.Command("go", "test", "-race", "-c", "-vet=off", "-overlay", of, "-o", bin, "./session")
	cmd.Dir = repoDir
	cmd.Env = append(os.Environ(), "GOFLAGS=-mod=mod", "GOPROXY=off", "GOSUMDB=off", "GOTOOLCHAIN=local", "CGO_ENABLED=1")
	if out, err := cmd.CombinedOutput(); err != nil {
		return nil, fmt.Errorf("race build failed: %s", truncate(string(out), 600))
	}
	buildS := time.Since(t0).Seconds()
	seen := map[string]bool{}
	var viol []string
	runs := 0
	for _, sc := range [][2]string{{"0", "^TestVerifRace$"}, {"1", "^TestVerifRace$"}, {"0", "^TestVerifRaceState$"}, {"0", "^TestVerifRaceTimers$"}, {"1", "^TestVerifRaceTimers$"}, {"0", "^TestVerifRaceEvents$"}, {"0", "^TestVerifRaceConn$"}, {"0", "^TestVerifRaceRelogon$"}, {"0", "^TestVerifRaceStopEarly$"}} {
		side := sc[0]
		c := exec.Command(bin, "-test.run", sc[1], "-test.count=1", "-test.timeout=60s")
		c.Dir = dir
		c.Env = append(os.Environ(), "VERIF_SIDE="+side, "GORACE=halt_on_error=0")
		out, _ := c.CombinedOutput()
		runs++
		txt := string(out)
		if strings.Contains(txt, "fatal error: concurrent map") {
			l := "fatal error: concurrent map access"
			for _, ln := range strings.Split(txt, "\n") {
				if m := raceFrameRe.FindStringSubmatch(ln); m != nil && strings.HasPrefix(m[1], repoDir+"/") && !strings.Contains(m[1], "zz_verif_") && !strings.HasSuffix(m[1], "_test.go") {
					l += " at " + strings.TrimPrefix(m[1], repoDir+"/") + ":" + m[2]
					break
				}
			}
			if !seen[l] {
				seen[l] = true
				viol = append(viol, l)
			}
		}
		for _, blk := range strings.Split(txt, "WARNING: DATA RACE")[1:] {
			if i := strings.Index(blk, "=================="); i >= 0 {
				blk = blk[:i]
			}
			// sections: the two accesses come first ("Read at"/"Write at", "Previous read/write at")
			var tops []string
			for _, sec := range strings.Split(blk, "\n\n") {
				h := strings.TrimSpace(sec)
				if !(strings.HasPrefix(h, "Read at") || strings.HasPrefix(h, "Write at") || strings.HasPrefix(h, "Previous") || strings.HasPrefix(h, "Atomic")) {
					continue
				}
				kind := strings.Fields(h)[0]
				if strings.HasPrefix(h, "Previous") {
					kind = strings.Fields(h)[1]
				}
				top := ""
				for _, ln := range strings.Split(sec, "\n") {
					if m := raceFrameRe.FindStringSubmatch(ln); m != nil && strings.HasPrefix(m[1], repoDir+"/") {
						// the innermost frame inside the module decides whose access this is: an access
						// made by harness/test code (e.g. a callback the library invoked) is not the library's
						if strings.Contains(m[1], "zz_verif_") || strings.HasSuffix(m[1], "_test.go") {
							break
						}
						top = strings.TrimPrefix(m[1], repoDir+"/") + ":" + m[2]
						break
					}
				}
				if top != "" {
					tops = append(tops, strings.ToLower(kind)+" "+top)
				}
			}
			if len(tops) < 2 {
				continue // at least one of the two accesses is made by harness/test code: not a race inside the library
			}
			sort.Strings(tops)
			l := "data race: " + strings.Join(tops, " <-> ")
			if !seen[l] {
				seen[l] = true
				viol = append(viol, l)
			}
		}
	}
	ev.Coverage["race_detector_runs"] = runs
	ev.Coverage["race_build_seconds"] = round3(buildS)
	ev.Coverage["race_scenario"] = "TestVerifRace (harness/session/race_test.go): 3 application senders, a writer loop, the inbound dispatch goroutine (TestRequest, Heartbeat, ResendRequest; then 2.3 s of silence so that the silence timer expires), state queries, event registration, both real timer goroutines with HeartBtInt=1, Session.Stop; both roles. TestVerifRaceTimers: no application traffic, the heartbeat timer expires, ResendRequest for everything sent, the timers expire again, second ResendRequest; both roles. TestVerifRaceEvents: a slow logout-event handler is running on the inbound goroutine while the application registers handlers and calls Stop. TestVerifRaceConn: the whole stack over a loopback socket (Acceptor.ListenAndServe + session, Initiator.Serve + session, 1 s timers, senders and resend requests on both sides, Close on both sides while senders run). TestVerifRaceRelogon: application senders and state queries keep running while the peer logs out and on again four times over the same connection. TestVerifRaceStopEarly: the application calls Stop the moment IsLogged turns true, overlapping the rest of the Logon processing, both roles"
	sort.Strings(viol)
	return viol, nil
}
