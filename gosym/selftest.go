package main

// selftest: validates the engine's strconv/fmt models against the real standard library.
// The symbolic model code is run "concolically": variables are symbolic terms, every decision is
// taken by evaluating its condition under a concrete model, and the defining constraints the model
// adds to the path condition are checked against the real function's output.

import (
	"fmt"
	"go/types"
	"math"
	"math/rand"
	"strconv"
	"strings"
	"unicode/utf8"
)

func selfTest() int {
	bad := 0
	rng := rand.New(rand.NewSource(20260926))
	var ints []int64
	for _, b := range []int64{0, 1, -1, 9, 10, -9, -10, 99, 100, 255, 256, 999, 1000, 99999, 100000, -99999, -100000,
		math.MaxInt64, math.MinInt64, math.MaxInt64 - 1, math.MinInt64 + 1, 1e18, -1e18, 999999999999999999, 1000000000000000000} {
		ints = append(ints, b)
	}
	for i := 0; i < 20000; i++ {
		sh := uint(rng.Intn(64))
		ints = append(ints, int64(rng.Uint64()>>sh)*int64(1-2*rng.Intn(2)))
	}
	nfmt, nparse := 0, 0
	for _, c := range ints {
		for _, signed := range []bool{true, false} {
			want := strconv.FormatInt(c, 10)
			if !signed {
				want = strconv.FormatUint(uint64(c), 10)
			}
			if !checkFmtInt(uint64(c), signed, want) {
				fmt.Printf("SELFTEST FAIL fmtInt(%d, signed=%v) != %q\n", c, signed, want)
				bad++
			}
			nfmt++
		}
	}
	// parse: valid numerals, signs, junk, leading zeros, empty
	var strs []string
	for _, c := range ints[:3000] {
		strs = append(strs, strconv.FormatInt(c, 10))
	}
	alphabet := "0123456789+-= a\x00\x01."
	for i := 0; i < 20000; i++ {
		n := rng.Intn(7)
		b := make([]byte, n)
		for j := range b {
			if rng.Intn(4) == 0 {
				b[j] = alphabet[rng.Intn(len(alphabet))]
			} else {
				b[j] = byte('0' + rng.Intn(10))
			}
		}
		strs = append(strs, string(b))
	}
	strs = append(strs, "", "+", "-", "+0", "-0", "007", "00", "+12", "-12", "1_000", "0x10", " 1", "1 ")
	// numerals of 19..21 digits around the int64 / uint64 limits (range check of strconv)
	for _, b := range []string{"9223372036854775807", "9223372036854775808", "-9223372036854775808", "-9223372036854775809",
		"18446744073709551615", "18446744073709551616", "18446744073709551617", "09223372036854775807", "0018446744073709551615",
		"99999999999999999999", "10000000000000000000", "17999999999999999999", "18000000000000000000", "18446744073709551609",
		"184467440737095516150", "000000000000000000001", "+9223372036854775807", "1844674407370955161a", "9999999999999999999"} {
		strs = append(strs, b)
	}
	for i := 0; i < 3000; i++ {
		n := 19 + rng.Intn(3)
		b := make([]byte, n)
		for j := range b {
			b[j] = byte('0' + rng.Intn(10))
		}
		if rng.Intn(3) == 0 {
			copy(b, "1844674407370955")
		} else if rng.Intn(3) == 0 {
			copy(b, "922337203685477")
		}
		strs = append(strs, string(b))
	}
	for _, s := range strs {
		if len(s) > 22 {
			continue
		}
		for _, signed := range []bool{true, false} {
			if !checkParseInt(s, signed) {
				fmt.Printf("SELFTEST FAIL parseInt(%q, signed=%v)\n", s, signed)
				bad++
			}
			nparse++
		}
	}
	// Sprintf %03s model
	for _, s := range []string{"", "1", "12", "123", "1234", "0", "07"} {
		in := concolicInterp(Model{})
		g2, _ := in.sprintfStr(mkStr("%03s"), Slice{Iface{t: types.Typ[types.String], v: mkStr(s)}}).concrete()
		if g2 != fmt.Sprintf("%03s", s) {
			fmt.Printf("SELFTEST FAIL sprintf %%03s %q: %q vs %q\n", s, g2, fmt.Sprintf("%03s", s))
			bad++
		}
	}
	// UTF-8 decoding over symbolic bytes (range over a string)
	nutf := 0
	var seqs [][]byte
	for _, q := range []string{"a", "\x7f", "\x80", "\xc2\x80", "\xc1\xbf", "\xdf\xbf", "\xe0\xa0\x80", "\xe0\x9f\xbf", "\xed\x9f\xbf", "\xed\xa0\x80",
		"\xef\xbf\xbd", "\xf0\x90\x80\x80", "\xf0\x8f\xbf\xbf", "\xf4\x8f\xbf\xbf", "\xf4\x90\x80\x80", "\xf5\x80\x80\x80", "\xc3", "\xe2\x82", "\xf0\x9f\x98",
		"\xc3\x28", "\xe2\x28\xa1", "\xe2\x82\x28", "\xf0\x28\x8c\xbc", "caf\xc3\xa9", "\xe9t\xe9"} {
		seqs = append(seqs, []byte(q))
	}
	for i := 0; i < 20000; i++ {
		b := make([]byte, 1+rng.Intn(4))
		for j := range b {
			switch rng.Intn(4) {
			case 0:
				b[j] = byte(rng.Intn(128))
			case 1:
				b[j] = byte(0x80 + rng.Intn(64))
			default:
				b[j] = byte(0xC0 + rng.Intn(64))
			}
		}
		seqs = append(seqs, b)
	}
	for _, q := range seqs {
		m := Model{}
		ts := make([]*Term, len(q))
		for i := range q {
			ts[i] = Var(fmt.Sprintf("st_u%d_8", i), 8)
			m[ts[i]] = uint64(q[i])
		}
		in := concolicInterp(m)
		r, sz := in.decodeRuneSym(ts)
		wr, wsz := utf8.DecodeRune(q)
		if sz != wsz || uint32(evalTerm(r, m, map[*Term]uint64{})) != uint32(wr) {
			fmt.Printf("SELFTEST FAIL decodeRune(%x): got (%d,%d) want (%d,%d)\n", q, evalTerm(r, m, map[*Term]uint64{}), sz, wr, wsz)
			bad++
		}
		nutf++
	}
	// strings.ToValidUTF8 / utf8.ValidString model against the real functions
	nvalid := 0
	for k := 0; k < 20000; k++ {
		q := make([]byte, 1+rng.Intn(7))
		for j := range q {
			switch rng.Intn(5) {
			case 0, 1:
				q[j] = byte(rng.Intn(128))
			case 2:
				q[j] = byte(0x80 + rng.Intn(64))
			default:
				q[j] = byte(0xC0 + rng.Intn(64))
			}
		}
		m := Model{}
		ts := make([]*Term, len(q))
		for i := range q {
			ts[i] = Var(fmt.Sprintf("st_w%d_8", i), 8)
			m[ts[i]] = uint64(q[i])
		}
		in := concolicInterp(m)
		out, valid := in.toValidUTF8Sym(ts, []*Term{C(8, '?')})
		got := make([]byte, len(out))
		for i, t := range out {
			got[i] = byte(evalTerm(t, m, map[*Term]uint64{}))
		}
		if want := strings.ToValidUTF8(string(q), "?"); string(got) != want || valid != utf8.Valid(q) {
			fmt.Printf("SELFTEST FAIL ToValidUTF8(%x): got %x/%v want %x/%v\n", q, got, valid, want, utf8.Valid(q))
			bad++
		}
		nvalid++
	}
	fmt.Printf("selftest: fmtInt cases=%d parseInt cases=%d utf8 cases=%d toValidUTF8 cases=%d failures=%d\n", nfmt, nparse, nutf, nvalid, bad)
	if bad > 0 {
		return 1
	}
	return 0
}

func concolicInterp(m Model) *Interp {
	res := &JobResult{Ends: map[string]int{}, Reached: map[string]int{}}
	ex := &Explorer{res: res, stubs: map[string]bool{}, concolic: m}
	ex.resetPath(nil)
	return newInterp(nil, ex)
}

func checkFmtInt(c uint64, signed bool, want string) bool {
	v := Var("st_v_64", 64)
	m := Model{v: c}
	in := concolicInterp(m)
	out := in.fmtInt(v, signed)
	if len(out.b) != len(want) {
		return false
	}
	// assign the real digits to the auxiliary digit variables and check every defining constraint
	for i, t := range out.b {
		if t.isC() {
			if byte(t.c) != want[i] {
				return false
			}
			continue
		}
		m[t] = uint64(want[i])
	}
	memo := map[*Term]uint64{}
	for _, p := range in.ex.pc {
		if evalTerm(p, m, memo) != 1 {
			return false
		}
	}
	// uniqueness of the digits is arithmetic (positional notation); additionally check that a
	// perturbed digit violates the defining equation
	for _, t := range out.b {
		if !t.isC() {
			m2 := Model{}
			for k, x := range m {
				m2[k] = x
			}
			if m2[t] == '9' {
				m2[t] = '8'
			} else {
				m2[t]++
			}
			okAll := true
			memo2 := map[*Term]uint64{}
			for _, p := range in.ex.pc {
				if evalTerm(p, m2, memo2) != 1 {
					okAll = false
				}
			}
			if okAll {
				return false
			}
			break
		}
	}
	return true
}

func checkParseInt(s string, signed bool) bool {
	m := Model{}
	str := Str{b: make([]*Term, len(s))}
	for i := range str.b {
		x := Var(fmt.Sprintf("st_b%d_8", i), 8)
		str.b[i] = x
		m[x] = uint64(s[i])
	}
	in := concolicInterp(m)
	got, ok := in.parseInt(str, signed)
	var wantV uint64
	var wantOK bool
	if signed {
		v, err := strconv.Atoi(s)
		wantV, wantOK = uint64(v), err == nil
	} else {
		v, err := strconv.ParseUint(s, 10, 64)
		wantV, wantOK = v, err == nil
	}
	if ok != wantOK {
		return false
	}
	if ok && evalTerm(got, m, map[*Term]uint64{}) != wantV {
		return false
	}
	return true
}
