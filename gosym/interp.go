package main

import (
	"fmt"
	"go/constant"
	"go/token"
	"go/types"
	"os"
	"strings"
	"unicode/utf8"

	"golang.org/x/tools/go/ssa"
)

type fnInfo struct {
	regs  map[ssa.Value]int
	nregs int
	fv    map[*ssa.FreeVar]int
}

var fnInfos = map[*ssa.Function]*fnInfo{}
var constCache = map[*ssa.Const]Value{}

func infoOf(fn *ssa.Function) *fnInfo {
	if fi, ok := fnInfos[fn]; ok {
		return fi
	}
	fi := &fnInfo{regs: map[ssa.Value]int{}, fv: map[*ssa.FreeVar]int{}}
	for _, p := range fn.Params {
		fi.regs[p] = fi.nregs
		fi.nregs++
	}
	for i, fv := range fn.FreeVars {
		fi.fv[fv] = i
	}
	for _, b := range fn.Blocks {
		for _, ins := range b.Instrs {
			if v, ok := ins.(ssa.Value); ok {
				fi.regs[v] = fi.nregs
				fi.nregs++
			}
		}
	}
	fnInfos[fn] = fi
	return fi
}

type pointKey struct {
	g   int
	ins ssa.Instruction
}

type armedWait struct {
	at, d *Term
	kind  string
}

type deferred struct {
	fnv  Value
	args []Value
}

type frame struct {
	fn     *ssa.Function
	info   *fnInfo
	locals []Value
	env    []Value
	defers []deferred
}

type Interp struct {
	prog    *ssa.Program
	globals map[*ssa.Global]*Value
	steps   int
	maxStep int
	ex      *Explorer

	// goroutines
	gs                     []*G
	cur                    *G
	killed                 bool
	pending                interface{} // panic value raised in a non-main goroutine, re-raised in main
	deadlock               string
	schedExp               bool // explore schedules at synchronisation points
	preempts, preemptBound int
	schedCoarse            bool
	curIns                 ssa.Instruction
	pointSeen              map[pointKey]int
	pickRot                int

	// side tables (fresh per path)
	mutexes      map[*Value]*mutexState
	afterFuncs   []*afterFunc
	timers       []*Value // utils.Timer objects in creation order
	timerFired   []int
	timerWaiting []int
	timerStub    bool
	phN          int
	timerType    types.Type
	nows         []*Term
	armed        []armedWait
	wraps        map[*Value]Value
	tickBudget   int
	nowCount     int
	lastNow      *Term
	clockSym     bool
	fmtMemo      []fmtMemoEntry
	errCount     int
	observed     []observation
	funcsSeen    map[*ssa.Function]bool
	acc          *accessLog
	accPaused    bool
	lastPos      string
}

func newInterp(prog *ssa.Program, ex *Explorer) *Interp {
	in := &Interp{prog: prog, globals: map[*ssa.Global]*Value{}, ex: ex, maxStep: 3_000_000,
		mutexes: map[*Value]*mutexState{}, funcsSeen: ex.funcsSeen, tickBudget: -1, preemptBound: 2}
	main := &G{id: 0, name: "main", wake: make(chan struct{}, 1), started: true}
	in.gs = []*G{main}
	in.cur = main
	return in
}

func (in *Interp) constVal(c *ssa.Const) Value {
	if v, ok := constCache[c]; ok {
		return v
	}
	v := in.constVal0(c)
	constCache[c] = v
	return v
}

func (in *Interp) constVal0(c *ssa.Const) Value {
	t := c.Type()
	if c.Value == nil {
		return zero(t)
	}
	if b, ok := t.Underlying().(*types.Basic); ok {
		switch {
		case b.Info()&types.IsBoolean != 0:
			return B(constant.BoolVal(c.Value))
		case b.Info()&types.IsString != 0:
			return mkStr(constant.StringVal(c.Value))
		case b.Info()&types.IsInteger != 0:
			if isSigned(t) {
				return C(widthOf(t), uint64(c.Int64()))
			}
			return C(widthOf(t), c.Uint64())
		case b.Info()&types.IsFloat != 0:
			f, _ := constant.Float64Val(c.Value)
			if f == float64(int64(f)) && f < 1e15 && f > -1e15 {
				return Flt{i: C(64, uint64(int64(f)))}
			}
			return Flt{bits: C(64, float64bits(f))}
		}
	}
	panic(engineError{"const " + c.String()})
}

func (in *Interp) get(fr *frame, v ssa.Value) Value {
	switch x := v.(type) {
	case *ssa.Const:
		return in.constVal(x)
	case *ssa.Global:
		p, ok := in.globals[x]
		if !ok {
			if x.Pkg != nil {
				if pp := x.Pkg.Pkg.Path(); !isModulePath(pp) && !initReal[pp] && pp != zzverifPath {
					// a package-level variable of a package whose init is not run: it is zero here.
					// Recorded, and an error unless known to be harmless (uninitGlobalOK).
					name := pp + "." + x.Name()
					if !uninitGlobalOK[name] && os.Getenv("GOSYM_GLOBALS_WARN") == "" {
						panic(engineError{"read of " + name + ": package-level variable of a package whose init function is not run by the engine (model the caller or add the package to initReal)"})
					}
					in.stub("global " + name)
				}
			}
			var cell Value = zero(x.Type().(*types.Pointer).Elem())
			p = &cell
			in.globals[x] = p
		}
		return p
	case *ssa.Function:
		return &Closure{fn: x}
	case *ssa.Builtin:
		return x
	case *ssa.FreeVar:
		return fr.env[fr.info.fv[x]]
	}
	i, ok := fr.info.regs[v]
	if !ok {
		panic(engineError{fmt.Sprintf("no register for %s in %s", v.Name(), fr.fn)})
	}
	return fr.locals[i]
}

func (in *Interp) pos(i ssa.Instruction) string {
	p := in.prog.Fset.Position(i.Pos())
	if !p.IsValid() {
		if i.Parent() != nil {
			return i.Parent().String()
		}
		return "?"
	}
	return fmt.Sprintf("%s:%d", p.Filename[strings.LastIndex(p.Filename, "/")+1:], p.Line)
}

// concretise a scalar that must be a concrete int (index, length): fork over feasible values.
func (in *Interp) concrete(t *Term, what string) int {
	if t.isC() {
		return int(sext(t.c, t.w))
	}
	return int(sext(in.ex.concretize(t, what), t.w))
}

// concreteIdx concretises an index/length operand honouring the signedness of its Go type.
func (in *Interp) concreteIdx(v ssa.Value, t *Term, what string) int {
	if t.w < 64 && !isSigned(v.Type()) {
		t = Zext(t, 64)
	}
	return in.concrete(t, what)
}

func (in *Interp) call(fn *ssa.Function, args []Value, env []Value) Value {
	if r, ok := in.intrinsic(fn, args); ok {
		return r
	}
	if fn.Blocks == nil {
		panic(engineError{"no body and no model for: " + fn.String()})
	}
	in.funcsSeen[fn] = true
	fi := infoOf(fn)
	fr := &frame{fn: fn, info: fi, locals: make([]Value, fi.nregs), env: env}
	copy(fr.locals, args)
	var ret Value
	func() {
		defer func() {
			if len(fr.defers) > 0 {
				if r := recover(); r != nil {
					if _, isGo := r.(goPanic); isGo {
						in.runDefers(fr)
					}
					panic(r)
				}
			}
		}()
		ret = in.run(fr)
	}()
	if fn.Name() == "NewTimer" && fn.Pkg != nil && fn.Pkg.Pkg.Path() == modPath+"/utils" {
		if t, ok := ret.(Tuple); ok {
			if p, ok := t[0].(*Value); ok && p != nil {
				in.timerType = fn.Signature.Results().At(0).Type().(*types.Pointer).Elem()
				in.timerIndex(p)
			}
		}
	}
	return ret
}

func (in *Interp) runDefers(fr *frame) {
	for len(fr.defers) > 0 {
		d := fr.defers[len(fr.defers)-1]
		fr.defers = fr.defers[:len(fr.defers)-1]
		in.invokeVal(d.fnv, d.args)
	}
}

func (in *Interp) run(fr *frame) Value {
	blk := fr.fn.Blocks[0]
	var prev *ssa.BasicBlock
	for {
		var next *ssa.BasicBlock
		nphi := 0
		if prev != nil {
			// phis are evaluated simultaneously
			var edge int
			for i, pred := range blk.Preds {
				if pred == prev {
					edge = i
					break
				}
			}
			var tmp [8]Value
			vals := tmp[:0]
			for _, ins := range blk.Instrs {
				p, ok := ins.(*ssa.Phi)
				if !ok {
					break
				}
				vals = append(vals, in.get(fr, p.Edges[edge]))
				nphi++
			}
			for i := 0; i < nphi; i++ {
				fr.locals[fr.info.regs[blk.Instrs[i].(*ssa.Phi)]] = vals[i]
			}
		}
		for _, ins := range blk.Instrs[nphi:] {
			in.steps++
			in.curIns = ins
			if in.steps > in.maxStep {
				panic(pathEnd{"UNWIND: step budget exceeded in " + fr.fn.String() + " at " + in.pos(ins)})
			}
			switch x := ins.(type) {
			case *ssa.Return:
				in.runDefers(fr)
				switch len(x.Results) {
				case 0:
					return nil
				case 1:
					return in.get(fr, x.Results[0])
				}
				t := make(Tuple, len(x.Results))
				for i, r := range x.Results {
					t[i] = in.get(fr, r)
				}
				return t
			case *ssa.Jump:
				next = blk.Succs[0]
			case *ssa.If:
				c := in.get(fr, x.Cond).(*Term)
				if in.ex.decide(c) {
					next = blk.Succs[0]
				} else {
					next = blk.Succs[1]
				}
			case *ssa.Panic:
				panic(goPanic{"panic(" + describe(in.ifaceInner(in.get(fr, x.X))) + ") at " + in.pos(x)})
			case *ssa.RunDefers:
				in.runDefers(fr)
			case *ssa.Defer:
				fnv, args := in.prepCall(fr, &x.Call)
				fr.defers = append(fr.defers, deferred{fnv, args})
			case *ssa.Store:
				p := in.get(fr, x.Addr).(*Value)
				if p == nil {
					panic(goPanic{"nil pointer dereference (store) at " + in.pos(x)})
				}
				if in.acc != nil {
					in.acc.note(in, p, true, x)
				}
				storeInto(p, in.get(fr, x.Val))
			case *ssa.Go:
				fnv, args := in.prepCall(fr, &x.Call)
				in.spawn(fnv, args, in.pos(x))
			case *ssa.Send:
				ch, _ := in.get(fr, x.Chan).(*Chan)
				in.chanSend(ch, in.get(fr, x.X), in.pos(x))
			case *ssa.MapUpdate:
				m := in.get(fr, x.Map).(*Map)
				if m == nil {
					panic(goPanic{"assignment to entry in nil map at " + in.pos(x)})
				}
				if in.acc != nil {
					in.acc.note(in, m, true, x)
				}
				in.mapSet(m, in.get(fr, x.Key), in.get(fr, x.Value))
			case *ssa.DebugRef:
			case ssa.Value:
				in.lastPos = ""
				fr.locals[fr.info.regs[x]] = in.eval(fr, x)
			default:
				panic(engineError{fmt.Sprintf("instr %T", ins)})
			}
		}
		if next == nil {
			panic(engineError{"fell off block in " + fr.fn.String()})
		}
		prev, blk = blk, next
	}
}

func (in *Interp) ifaceInner(v Value) Value {
	if i, ok := v.(Iface); ok {
		return i.v
	}
	return v
}

func (in *Interp) prepCall(fr *frame, c *ssa.CallCommon) (Value, []Value) {
	var args []Value
	var fnv Value
	if c.IsInvoke() {
		recv := in.get(fr, c.Value).(Iface)
		if nv, ok := recv.v.(nativeObj); ok {
			name := c.Method.Name()
			var rest []Value
			for _, a := range c.Args {
				rest = append(rest, in.get(fr, a))
			}
			return &NativeFn{name: name, f: func(in *Interp, _ []Value) Value { return nv.method(in, name, rest) }}, nil
		}
		if recv.t == nil {
			panic(goPanic{"nil interface method call ." + c.Method.Name()})
		}
		ms := in.prog.MethodSets.MethodSet(recv.t)
		sel := ms.Lookup(c.Method.Pkg(), c.Method.Name())
		if sel == nil {
			panic(engineError{"no method " + c.Method.Name() + " on " + recv.t.String()})
		}
		fnv = &Closure{fn: in.prog.MethodValue(sel)}
		args = append(args, recv.v)
	} else {
		fnv = in.get(fr, c.Value)
	}
	for _, a := range c.Args {
		args = append(args, in.get(fr, a))
	}
	return fnv, args
}

func (in *Interp) invokeVal(fnv Value, args []Value) Value {
	switch f := fnv.(type) {
	case *Closure:
		if f == nil {
			panic(goPanic{"call of nil func"})
		}
		return in.call(f.fn, args, f.env)
	case *ssa.Builtin:
		return in.builtin(f, args)
	case *NativeFn:
		return f.f(in, args)
	}
	panic(engineError{fmt.Sprintf("call of %T", fnv)})
}

func (in *Interp) builtin(b *ssa.Builtin, args []Value) Value {
	switch b.Name() {
	case "len":
		switch x := args[0].(type) {
		case Slice:
			return C(64, uint64(len(x)))
		case Str:
			return C(64, uint64(len(x.b)))
		case *Map:
			if x == nil {
				return C(64, 0)
			}
			return C(64, uint64(len(x.keys)))
		case *Chan:
			if x == nil {
				return C(64, 0)
			}
			return C(64, uint64(len(x.buf)))
		case Array:
			return C(64, uint64(len(x)))
		case *Value:
			if x != nil {
				if a, ok := (*x).(Array); ok {
					return C(64, uint64(len(a)))
				}
			}
		}
	case "cap":
		switch x := args[0].(type) {
		case Slice:
			return C(64, uint64(cap(x)))
		case *Chan:
			if x == nil {
				return C(64, 0)
			}
			return C(64, uint64(x.cap))
		}
	case "append":
		s := args[0].(Slice)
		switch t := args[1].(type) {
		case Slice:
			if len(t) == 0 {
				return s
			}
			r := append(s, t...)
			return r
		case Str:
			if len(t.b) == 0 {
				return s
			}
			for _, b := range t.b {
				s = append(s, b)
			}
			return s
		}
	case "copy":
		d := args[0].(Slice)
		switch t := args[1].(type) {
		case Slice:
			return C(64, uint64(copy(d, t)))
		case Str:
			n := 0
			for i := 0; i < len(d) && i < len(t.b); i++ {
				d[i] = t.b[i]
				n++
			}
			return C(64, uint64(n))
		}
	case "println", "print":
		return nil
	case "ssa:wrapnilchk":
		if p, ok := args[0].(*Value); ok && p == nil {
			panic(goPanic{"value method called using nil pointer"})
		}
		return args[0]
	case "delete":
		m := args[0].(*Map)
		if m == nil {
			return nil
		}
		for i, k := range m.keys {
			if in.ex.decide(in.valEq(k, args[1])) {
				m.keys = append(append([]Value{}, m.keys[:i]...), m.keys[i+1:]...)
				m.vals = append(append([]Value{}, m.vals[:i]...), m.vals[i+1:]...)
				break
			}
		}
		return nil
	case "close":
		ch := args[0].(*Chan)
		if ch == nil {
			panic(goPanic{"close of nil channel"})
		}
		if ch.closed {
			panic(goPanic{"close of closed channel"})
		}
		ch.closed = true
		return nil
	case "max", "min":
		r := args[0].(*Term)
		for _, a := range args[1:] {
			t := a.(*Term)
			c := Bin("bvslt", r, t)
			if b.Name() == "min" {
				c = Bin("bvslt", t, r)
			}
			r = Ite(c, t, r)
		}
		return r
	}
	panic(engineError{"builtin " + b.Name() + fmt.Sprintf(" on %T", args[0])})
}

func (in *Interp) strEq(a, b Str) *Term {
	if len(a.b) != len(b.b) {
		return B(false)
	}
	r := B(true)
	for i := range a.b {
		r = And(r, Bin("=", a.b[i], b.b[i]))
		if r.isFalse() {
			return r
		}
	}
	return r
}

func (in *Interp) valEq(a, b Value) *Term {
	switch x := a.(type) {
	case *Term:
		return Bin("=", x, b.(*Term))
	case Str:
		return in.strEq(x, b.(Str))
	case *Value:
		return B(x == b.(*Value))
	case Iface:
		y := b.(Iface)
		if x.t == nil || y.t == nil {
			return B(x.t == nil && y.t == nil)
		}
		if !types.Identical(x.t, y.t) {
			return B(false)
		}
		return in.valEq(x.v, y.v)
	case Slice:
		return B(x == nil && b.(Slice) == nil) // only comparison with nil is legal Go
	case *Map:
		return B(x == b.(*Map))
	case *Closure:
		return B(x == nil && b.(*Closure) == nil)
	case *Chan:
		return B(x == b.(*Chan))
	case *Ctx:
		y, _ := b.(*Ctx)
		return B(x == y)
	case nil:
		return B(b == nil)
	case Flt:
		y := b.(Flt)
		if x.i != nil && y.i != nil {
			return Bin("=", x.i, y.i)
		}
		if x.bits != nil && y.bits != nil {
			return Bin("=", x.bits, y.bits)
		}
		panic(engineError{"float compare int-valued vs opaque"})
	case Struct:
		y := b.(Struct)
		r := B(true)
		for i := range x {
			r = And(r, in.valEq(x[i], y[i]))
		}
		return r
	case Array:
		y := b.(Array)
		r := B(true)
		for i := range x {
			r = And(r, in.valEq(x[i], y[i]))
		}
		return r
	}
	panic(engineError{fmt.Sprintf("valEq %T", a)})
}

func (in *Interp) mapGet(m *Map, k Value) (Value, bool) {
	if m == nil {
		return nil, false
	}
	for i, mk := range m.keys {
		if in.ex.decide(in.valEq(mk, k)) {
			return m.vals[i], true
		}
	}
	return nil, false
}
func (in *Interp) mapSet(m *Map, k, v Value) {
	for i, mk := range m.keys {
		if in.ex.decide(in.valEq(mk, k)) {
			m.vals[i] = v
			return
		}
	}
	m.keys = append(m.keys, k)
	m.vals = append(m.vals, copyVal(v))
}

func (in *Interp) eval(fr *frame, v ssa.Value) Value {
	switch x := v.(type) {
	case *ssa.Alloc:
		var cell Value = zero(x.Type().(*types.Pointer).Elem())
		return &cell
	case *ssa.UnOp:
		a := in.get(fr, x.X)
		switch x.Op {
		case token.MUL:
			p := a.(*Value)
			if p == nil {
				panic(goPanic{"nil pointer dereference at " + in.pos(x)})
			}
			if in.acc != nil {
				in.acc.note(in, p, false, x)
			}
			return copyVal(*p)
		case token.ARROW:
			ch, _ := a.(*Chan)
			val, ok := in.chanRecv(ch, in.pos(x))
			if val == nil {
				val = zero(x.X.Type().Underlying().(*types.Chan).Elem())
			}
			if x.CommaOk {
				return Tuple{val, B(ok)}
			}
			return val
		case token.NOT:
			return Not(a.(*Term))
		case token.SUB:
			if f, ok := a.(Flt); ok {
				if f.i != nil {
					return Flt{i: Bin("bvsub", C(64, 0), f.i)}
				}
				panic(engineError{"float negate"})
			}
			t := a.(*Term)
			return Bin("bvsub", C(t.w, 0), t)
		case token.XOR:
			t := a.(*Term)
			return Bin("bvxor", t, C(t.w, ^uint64(0)))
		}
	case *ssa.BinOp:
		return in.binop(x, in.get(fr, x.X), in.get(fr, x.Y))
	case *ssa.Call:
		fnv, args := in.prepCall(fr, &x.Call)
		return in.invokeVal(fnv, args)
	case *ssa.MakeClosure:
		env := make([]Value, len(x.Bindings))
		for i, b := range x.Bindings {
			env[i] = in.get(fr, b)
		}
		return &Closure{fn: x.Fn.(*ssa.Function), env: env}
	case *ssa.MakeInterface:
		return Iface{t: x.X.Type(), v: copyVal(in.get(fr, x.X))}
	case *ssa.ChangeInterface:
		return in.get(fr, x.X)
	case *ssa.ChangeType:
		return in.get(fr, x.X)
	case *ssa.Extract:
		return in.get(fr, x.Tuple).(Tuple)[x.Index]
	case *ssa.FieldAddr:
		p := in.get(fr, x.X).(*Value)
		if p == nil {
			panic(goPanic{"nil pointer dereference (field) at " + in.pos(x)})
		}
		return &((*p).(Struct))[x.Field]
	case *ssa.Field:
		return copyVal(in.get(fr, x.X).(Struct)[x.Field])
	case *ssa.IndexAddr:
		idx := in.concreteIdx(x.Index, in.get(fr, x.Index).(*Term), "index at "+in.pos(x))
		switch s := in.get(fr, x.X).(type) {
		case Slice:
			if idx < 0 || idx >= len(s) {
				panic(goPanic{fmt.Sprintf("index out of range [%d] with length %d at %s", idx, len(s), in.pos(x))})
			}
			return &s[idx]
		case *Value:
			if s == nil {
				panic(goPanic{"nil pointer dereference (array) at " + in.pos(x)})
			}
			a := (*s).(Array)
			if idx < 0 || idx >= len(a) {
				panic(goPanic{fmt.Sprintf("index out of range [%d] with length %d at %s", idx, len(a), in.pos(x))})
			}
			return &a[idx]
		}
	case *ssa.Index:
		idx := in.concreteIdx(x.Index, in.get(fr, x.Index).(*Term), "index at "+in.pos(x))
		switch s := in.get(fr, x.X).(type) {
		case Str:
			if idx < 0 || idx >= len(s.b) {
				panic(goPanic{fmt.Sprintf("index out of range [%d] with length %d at %s", idx, len(s.b), in.pos(x))})
			}
			return s.b[idx]
		case Array:
			if idx < 0 || idx >= len(s) {
				panic(goPanic{fmt.Sprintf("index out of range [%d] with length %d at %s", idx, len(s), in.pos(x))})
			}
			return copyVal(s[idx])
		}
	case *ssa.Lookup:
		switch s := in.get(fr, x.X).(type) {
		case Str:
			idx := in.concreteIdx(x.Index, in.get(fr, x.Index).(*Term), "index at "+in.pos(x))
			if idx < 0 || idx >= len(s.b) {
				panic(goPanic{fmt.Sprintf("index out of range [%d] with length %d at %s", idx, len(s.b), in.pos(x))})
			}
			return s.b[idx]
		case *Map:
			if in.acc != nil && s != nil {
				in.acc.note(in, s, false, x)
			}
			val, ok := in.mapGet(s, in.get(fr, x.Index))
			if !ok {
				val = zero(x.X.Type().Underlying().(*types.Map).Elem())
			}
			if x.CommaOk {
				return Tuple{copyVal(val), B(ok)}
			}
			return copyVal(val)
		}
	case *ssa.Slice:
		return in.slice(fr, x)
	case *ssa.MakeSlice:
		n := in.concrete(in.get(fr, x.Len).(*Term), "make len at "+in.pos(x))
		c := in.concrete(in.get(fr, x.Cap).(*Term), "make cap at "+in.pos(x))
		if n < 0 || c < n || c > 1<<24 {
			panic(goPanic{fmt.Sprintf("makeslice: len out of range (%d,%d) at %s", n, c, in.pos(x))})
		}
		s := make(Slice, n, c)
		et := x.Type().Underlying().(*types.Slice).Elem()
		full := s[:c]
		for i := range full {
			full[i] = zero(et)
		}
		return s
	case *ssa.MakeMap:
		return &Map{}
	case *ssa.MakeChan:
		n := in.concrete(in.get(fr, x.Size).(*Term), "chan size")
		return &Chan{cap: n}
	case *ssa.Select:
		return in.selectStmt(fr, x)
	case *ssa.Convert:
		return in.convert(x, in.get(fr, x.X))
	case *ssa.TypeAssert:
		return in.typeAssert(x, in.get(fr, x.X).(Iface))
	case *ssa.Range:
		switch s := in.get(fr, x.X).(type) {
		case *Map:
			it := &mapIter{m: &Map{}}
			if s != nil {
				it.m.keys = append([]Value{}, s.keys...)
				it.m.vals = append([]Value{}, s.vals...)
			}
			return it
		case Str:
			return &mapIter{s: s, str: true}
		}
	case *ssa.Next:
		it := in.get(fr, x.Iter).(*mapIter)
		if it.str {
			if it.pos >= len(it.s.b) {
				return Tuple{B(false), C(64, 0), C(32, 0)}
			}
			cs, ok := Str{b: it.s.b[it.pos:]}.concrete()
			if !ok {
				// symbolic byte: treat as a one-byte rune only if provably ASCII is unknown -> unsupported
				b0 := it.s.b[it.pos]
				if in.ex.decide(Bin("bvult", b0, C(8, 0x80))) {
					p := it.pos
					it.pos++
					return Tuple{B(true), C(64, uint64(p)), Zext(b0, 32)}
				}
				r, sz := in.decodeRuneSym(it.s.b[it.pos:])
				p := it.pos
				it.pos += sz
				return Tuple{B(true), C(64, uint64(p)), r}
			}
			r, sz := utf8.DecodeRuneInString(cs)
			p := it.pos
			it.pos += sz
			return Tuple{B(true), C(64, uint64(p)), C(32, uint64(r))}
		}
		if it.pos >= len(it.m.keys) {
			return Tuple{B(false), nil, nil}
		}
		p := it.pos
		it.pos++
		return Tuple{B(true), it.m.keys[p], it.m.vals[p]}
	case *ssa.SliceToArrayPointer:
		s := in.get(fr, x.X).(Slice)
		var cell Value = Array(s)
		return &cell
	case *ssa.MultiConvert:
		panic(engineError{"MultiConvert"})
	}
	panic(engineError{fmt.Sprintf("eval %T %s", v, v)})
}

func (in *Interp) typeAssert(x *ssa.TypeAssert, i Iface) Value {
	ok := false
	_, toIface := x.AssertedType.Underlying().(*types.Interface)
	if i.t != nil {
		if toIface {
			if _, isNative := i.v.(nativeObj); isNative {
				ok = true
			} else {
				ok = types.Implements(i.t, x.AssertedType.Underlying().(*types.Interface))
			}
		} else {
			ok = types.Identical(i.t, x.AssertedType)
		}
	}
	var res Value
	if ok {
		if toIface {
			res = i
		} else {
			res = i.v
		}
	} else {
		res = zero(x.AssertedType)
	}
	if x.CommaOk {
		return Tuple{res, B(ok)}
	}
	if !ok {
		ts := "nil"
		if i.t != nil {
			ts = i.t.String()
		}
		panic(goPanic{"interface conversion: " + ts + " is not " + x.AssertedType.String() + " at " + in.pos(x)})
	}
	return res
}

func (in *Interp) slice(fr *frame, x *ssa.Slice) Value {
	lo, hi, mx := 0, -1, -1
	if x.Low != nil {
		lo = in.concreteIdx(x.Low, in.get(fr, x.Low).(*Term), "slice lo at "+in.pos(x))
	}
	if x.High != nil {
		hi = in.concreteIdx(x.High, in.get(fr, x.High).(*Term), "slice hi at "+in.pos(x))
		if hi < 0 {
			panic(goPanic{fmt.Sprintf("slice bounds out of range [:%d] at %s", hi, in.pos(x))})
		}
	}
	if x.Max != nil {
		mx = in.concreteIdx(x.Max, in.get(fr, x.Max).(*Term), "slice max at "+in.pos(x))
		if mx < 0 {
			panic(goPanic{fmt.Sprintf("slice bounds out of range [::%d] at %s", mx, in.pos(x))})
		}
	}
	switch s := in.get(fr, x.X).(type) {
	case Slice:
		if hi < 0 {
			hi = len(s)
		}
		if mx < 0 {
			mx = cap(s)
		}
		if lo < 0 || lo > hi || hi > mx || mx > cap(s) {
			panic(goPanic{fmt.Sprintf("slice bounds out of range [%d:%d] with capacity %d at %s", lo, hi, cap(s), in.pos(x))})
		}
		if s == nil {
			return Slice(nil)
		}
		return s[lo:hi:mx]
	case Str:
		if hi < 0 {
			hi = len(s.b)
		}
		if lo < 0 || lo > hi || hi > len(s.b) {
			panic(goPanic{fmt.Sprintf("slice bounds out of range [%d:%d] with length %d at %s", lo, hi, len(s.b), in.pos(x))})
		}
		return Str{b: s.b[lo:hi:hi]}
	case *Value:
		if s == nil {
			panic(goPanic{"nil pointer dereference (slice of array) at " + in.pos(x)})
		}
		a := Slice((*s).(Array))
		if hi < 0 {
			hi = len(a)
		}
		if mx < 0 {
			mx = len(a)
		}
		if lo < 0 || lo > hi || hi > mx || mx > len(a) {
			panic(goPanic{fmt.Sprintf("slice bounds out of range [%d:%d] with length %d at %s", lo, hi, len(a), in.pos(x))})
		}
		return a[lo:hi:mx]
	}
	panic(engineError{"slice of ?"})
}

func (in *Interp) convert(x *ssa.Convert, v Value) Value {
	from, to := x.X.Type(), x.Type()
	switch {
	case isString(to):
		switch s := v.(type) {
		case Slice:
			r := Str{b: make([]*Term, len(s))}
			for i, e := range s {
				r.b[i] = e.(*Term)
			}
			return r
		case Str:
			return s
		case *Term: // string(rune)
			if s.isC() {
				return mkStr(string(rune(s.sval())))
			}
			panic(engineError{"string(symbolic rune)"})
		}
	case isString(from):
		if sl, ok := to.Underlying().(*types.Slice); ok {
			s := v.(Str)
			if b, ok := sl.Elem().Underlying().(*types.Basic); ok && b.Kind() == types.Int32 {
				cs, ok := s.concrete()
				if !ok {
					panic(engineError{"[]rune(symbolic string)"})
				}
				var r Slice
				for _, ru := range cs {
					r = append(r, C(32, uint64(ru)))
				}
				return r
			}
			r := make(Slice, len(s.b))
			for i, e := range s.b {
				r[i] = e
			}
			return r
		}
	default:
		if f, ok := v.(Flt); ok {
			if isFloat(to) {
				return f
			}
			if f.i != nil { // float -> int of an integer-valued float
				return Trunc(f.i, widthOf(to))
			}
			panic(engineError{"convert opaque float to int"})
		}
		if t, ok := v.(*Term); ok {
			if isFloat(to) {
				if isSigned(from) {
					return Flt{i: Sext(t, 64)}
				}
				return Flt{i: Zext(t, 64)}
			}
			tw := widthOf(to)
			if tw <= t.w {
				return Trunc(t, tw)
			}
			if isSigned(from) {
				return Sext(t, tw)
			}
			return Zext(t, tw)
		}
		return v // pointer <-> unsafe.Pointer etc.
	}
	panic(engineError{"convert " + from.String() + " -> " + to.String()})
}

func (in *Interp) binop(x *ssa.BinOp, a, b Value) Value {
	if sa, ok := a.(Str); ok {
		sb := b.(Str)
		switch x.Op {
		case token.ADD:
			return Str{b: append(append(make([]*Term, 0, len(sa.b)+len(sb.b)), sa.b...), sb.b...)}
		case token.EQL:
			return in.strEq(sa, sb)
		case token.NEQ:
			return Not(in.strEq(sa, sb))
		case token.LSS, token.LEQ, token.GTR, token.GEQ:
			ca, ok1 := sa.concrete()
			cb, ok2 := sb.concrete()
			if ok1 && ok2 {
				switch x.Op {
				case token.LSS:
					return B(ca < cb)
				case token.LEQ:
					return B(ca <= cb)
				case token.GTR:
					return B(ca > cb)
				default:
					return B(ca >= cb)
				}
			}
		}
		panic(engineError{"string op " + x.Op.String()})
	}
	if fa, ok := a.(Flt); ok {
		fb := b.(Flt)
		if fa.i != nil && fb.i != nil {
			switch x.Op {
			case token.EQL:
				return Bin("=", fa.i, fb.i)
			case token.NEQ:
				return Not(Bin("=", fa.i, fb.i))
			case token.LSS:
				return Bin("bvslt", fa.i, fb.i)
			case token.LEQ:
				return Bin("bvsle", fa.i, fb.i)
			case token.GTR:
				return Bin("bvslt", fb.i, fa.i)
			case token.GEQ:
				return Bin("bvsle", fb.i, fa.i)
			}
		}
		if fa.bits != nil && fb.bits != nil {
			switch x.Op {
			case token.EQL:
				return Bin("=", fa.bits, fb.bits)
			case token.NEQ:
				return Not(Bin("=", fa.bits, fb.bits))
			}
		}
		panic(engineError{"float op " + x.Op.String()})
	}
	ta, oka := a.(*Term)
	tb, okb := b.(*Term)
	if !oka || !okb {
		switch x.Op {
		case token.EQL:
			return in.valEq(a, b)
		case token.NEQ:
			return Not(in.valEq(a, b))
		}
		panic(engineError{fmt.Sprintf("binop %s on %T", x.Op, a)})
	}
	sg := isSigned(x.X.Type())
	if ta.w == 0 {
		switch x.Op {
		case token.EQL:
			return Bin("=", ta, tb)
		case token.NEQ:
			return Not(Bin("=", ta, tb))
		case token.AND:
			return And(ta, tb)
		case token.OR:
			return Or(ta, tb)
		}
	}
	switch x.Op {
	case token.ADD:
		return Bin("bvadd", ta, tb)
	case token.SUB:
		return Bin("bvsub", ta, tb)
	case token.MUL:
		return Bin("bvmul", ta, tb)
	case token.QUO:
		if !tb.isC() {
			if in.ex.decide(Bin("=", tb, C(tb.w, 0))) {
				panic(goPanic{"integer divide by zero at " + in.pos(x)})
			}
		} else if tb.c == 0 {
			panic(goPanic{"integer divide by zero at " + in.pos(x)})
		}
		if sg {
			return Bin("bvsdiv", ta, tb)
		}
		return Bin("bvudiv", ta, tb)
	case token.REM:
		if !tb.isC() {
			if in.ex.decide(Bin("=", tb, C(tb.w, 0))) {
				panic(goPanic{"integer divide by zero at " + in.pos(x)})
			}
		} else if tb.c == 0 {
			panic(goPanic{"integer divide by zero at " + in.pos(x)})
		}
		// x % 2^k for a dividend known to be non-negative is its low k bits: keeps checksum
		// arithmetic at 8 bits instead of 64
		if tb.isC() && tb.c > 1 && tb.c&(tb.c-1) == 0 && tb.c <= 1<<32 {
			if r, ok := in.ex.rangeOf(ta, 0); ok && r.lo >= 0 {
				k := 0
				for uint64(1)<<uint(k) < tb.c {
					k++
				}
				return Zext(Trunc(ta, k), ta.w)
			}
		}
		if sg {
			return Bin("bvsrem", ta, tb)
		}
		return Bin("bvurem", ta, tb)
	case token.AND:
		return Bin("bvand", ta, tb)
	case token.OR:
		return Bin("bvor", ta, tb)
	case token.XOR:
		return Bin("bvxor", ta, tb)
	case token.AND_NOT:
		return Bin("bvand", ta, Bin("bvxor", tb, C(tb.w, ^uint64(0))))
	case token.SHL, token.SHR:
		sh := tb
		if sh.w < ta.w {
			sh = Zext(sh, ta.w)
		} else if sh.w > ta.w {
			if !sh.isC() {
				panic(engineError{"wide symbolic shift count"})
			}
			c := sh.c
			if c > 255 {
				c = 255
			}
			sh = C(ta.w, c)
		}
		if x.Op == token.SHL {
			return Bin("bvshl", ta, sh)
		}
		if sg {
			return Bin("bvashr", ta, sh)
		}
		return Bin("bvlshr", ta, sh)
	case token.EQL:
		return Bin("=", ta, tb)
	case token.NEQ:
		return Not(Bin("=", ta, tb))
	case token.LSS:
		if sg {
			return Bin("bvslt", ta, tb)
		}
		return Bin("bvult", ta, tb)
	case token.LEQ:
		if sg {
			return Bin("bvsle", ta, tb)
		}
		return Bin("bvule", ta, tb)
	case token.GTR:
		if sg {
			return Bin("bvslt", tb, ta)
		}
		return Bin("bvult", tb, ta)
	case token.GEQ:
		if sg {
			return Bin("bvsle", tb, ta)
		}
		return Bin("bvule", tb, ta)
	}
	panic(engineError{"binop " + x.Op.String()})
}

// decodeRuneSym: utf8.DecodeRune over bytes that may be symbolic, case by case (each case is a
// path decision); anything that is not a well-formed sequence is RuneError with width 1.
func (in *Interp) decodeRuneSym(rest []*Term) (*Term, int) {
	e := in.ex
	b0 := rest[0]
	if e.decide(Bin("bvult", b0, C(8, 0x80))) {
		return Zext(b0, 32), 1
	}
	in8 := func(x *Term, lo, hi uint64) *Term {
		return And(Bin("bvule", C(8, lo), x), Bin("bvule", x, C(8, hi)))
	}
	cont := func(x *Term) *Term { return in8(x, 0x80, 0xBF) }
	low := func(x *Term, mask uint64) *Term { return Zext(Bin("bvand", x, C(8, mask)), 32) }
	shl := func(x *Term, n uint64) *Term { return Bin("bvshl", x, C(32, n)) }
	if len(rest) >= 2 && e.decide(And(in8(b0, 0xC2, 0xDF), cont(rest[1]))) {
		return Bin("bvor", shl(low(b0, 0x1F), 6), low(rest[1], 0x3F)), 2
	}
	if len(rest) >= 3 {
		b1ok := Or(And(Bin("=", b0, C(8, 0xE0)), in8(rest[1], 0xA0, 0xBF)),
			Or(And(Bin("=", b0, C(8, 0xED)), in8(rest[1], 0x80, 0x9F)),
				And(And(in8(b0, 0xE1, 0xEF), Not(Bin("=", b0, C(8, 0xED)))), cont(rest[1]))))
		if e.decide(And(b1ok, cont(rest[2]))) {
			return Bin("bvor", Bin("bvor", shl(low(b0, 0x0F), 12), shl(low(rest[1], 0x3F), 6)), low(rest[2], 0x3F)), 3
		}
	}
	if len(rest) >= 4 {
		b1ok := Or(And(Bin("=", b0, C(8, 0xF0)), in8(rest[1], 0x90, 0xBF)),
			Or(And(Bin("=", b0, C(8, 0xF4)), in8(rest[1], 0x80, 0x8F)),
				And(in8(b0, 0xF1, 0xF3), cont(rest[1]))))
		if e.decide(And(And(b1ok, cont(rest[2])), cont(rest[3]))) {
			return Bin("bvor", Bin("bvor", shl(low(b0, 0x07), 18), shl(low(rest[1], 0x3F), 12)),
				Bin("bvor", shl(low(rest[2], 0x3F), 6), low(rest[3], 0x3F))), 4
		}
	}
	return C(32, 0xFFFD), 1
}

// uninitGlobalOK: package-level variables of packages whose init is not run that may be used with
// their zero value (the value Go gives them before init as well).
var uninitGlobalOK = map[string]bool{
	// *time.Location values are opaque to the time model (instants are UTC nanoseconds)
	"time.UTC": true, "time.Local": true,
}
