package main

import (
	"fmt"
	"go/types"

	"golang.org/x/tools/go/ssa"
)

// Interpreter values. Scalars are *Term; everything else is a concrete heap object.
type Value interface{}

type Str struct{ b []*Term } // string with concrete length, per-byte terms
type Slice []Value           // Go slice semantics (len/cap) for free
type Struct []Value
type Array []Value
type Tuple []Value
type Iface struct {
	t types.Type
	v Value
}
type Closure struct {
	fn  *ssa.Function
	env []Value
}
type NativeFn struct {
	name string
	f    func(in *Interp, args []Value) Value
}
type Map struct {
	keys []Value
	vals []Value
}

// Flt: float64 value. Either integer-valued (i != nil, the mathematical value is the signed
// 64-bit integer i, assumed |i| < 2^53) or opaque IEEE bits.
type Flt struct {
	i    *Term
	bits *Term
}

type mapIter struct {
	m   *Map
	s   Str
	pos int
	str bool
}

// path outcomes (host panics)
type goPanic struct{ msg string }     // a Go runtime/explicit panic in the code under test
type pathEnd struct{ why string }     // the path ends (infeasible assume, violation recorded, unwind, ...)
type engineError struct{ msg string } // the engine cannot model something: never reported as success
type killG struct{}

func (e engineError) Error() string { return e.msg }

func mkStr(s string) Str {
	r := Str{b: make([]*Term, len(s))}
	for i := 0; i < len(s); i++ {
		r.b[i] = C(8, uint64(s[i]))
	}
	return r
}

func (s Str) concrete() (string, bool) {
	b := make([]byte, len(s.b))
	for i, t := range s.b {
		if !t.isC() {
			return "", false
		}
		b[i] = byte(t.c)
	}
	return string(b), true
}

func sliceConcrete(s Slice) ([]byte, bool) {
	b := make([]byte, len(s))
	for i, t := range s {
		tt, ok := t.(*Term)
		if !ok || !tt.isC() {
			return nil, false
		}
		b[i] = byte(tt.c)
	}
	return b, true
}

func bytesToSlice(b []byte) Slice {
	r := make(Slice, len(b))
	for i, x := range b {
		r[i] = C(8, uint64(x))
	}
	return r
}

func widthOf(t types.Type) int {
	b, ok := t.Underlying().(*types.Basic)
	if !ok {
		panic(engineError{"widthOf " + t.String()})
	}
	switch b.Kind() {
	case types.Bool, types.UntypedBool:
		return 0
	case types.Int8, types.Uint8:
		return 8
	case types.Int16, types.Uint16:
		return 16
	case types.Int32, types.Uint32, types.UntypedRune:
		return 32
	default:
		return 64
	}
}
func isSigned(t types.Type) bool {
	b, ok := t.Underlying().(*types.Basic)
	return ok && b.Info()&types.IsUnsigned == 0
}
func isString(t types.Type) bool {
	b, ok := t.Underlying().(*types.Basic)
	return ok && b.Info()&types.IsString != 0
}
func isFloat(t types.Type) bool {
	b, ok := t.Underlying().(*types.Basic)
	return ok && b.Info()&types.IsFloat != 0
}

func zero(t types.Type) Value {
	switch u := t.Underlying().(type) {
	case *types.Basic:
		if u.Info()&types.IsString != 0 {
			return Str{}
		}
		if u.Kind() == types.UnsafePointer {
			return (*Value)(nil)
		}
		if u.Info()&types.IsFloat != 0 {
			return Flt{i: C(64, 0)}
		}
		if u.Kind() == types.UntypedNil {
			return nil
		}
		w := widthOf(t)
		if w == 0 {
			return B(false)
		}
		return C(w, 0)
	case *types.Pointer:
		return (*Value)(nil)
	case *types.Slice:
		return Slice(nil)
	case *types.Struct:
		s := make(Struct, u.NumFields())
		for i := range s {
			s[i] = zero(u.Field(i).Type())
		}
		return s
	case *types.Array:
		a := make(Array, u.Len())
		for i := range a {
			a[i] = zero(u.Elem())
		}
		return a
	case *types.Interface:
		return Iface{}
	case *types.Signature:
		return (*Closure)(nil)
	case *types.Map:
		return (*Map)(nil)
	case *types.Chan:
		return (*Chan)(nil)
	case *types.Tuple:
		tp := make(Tuple, u.Len())
		for i := range tp {
			tp[i] = zero(u.At(i).Type())
		}
		return tp
	}
	panic(engineError{"zero: " + t.String()})
}

func copyVal(v Value) Value {
	switch x := v.(type) {
	case Struct:
		n := make(Struct, len(x))
		for i := range x {
			n[i] = copyVal(x[i])
		}
		return n
	case Array:
		n := make(Array, len(x))
		for i := range x {
			n[i] = copyVal(x[i])
		}
		return n
	}
	return v
}

// storeInto writes v into *p keeping the identity of nested struct/array cells (so that
// pointers to fields taken earlier stay valid).
func storeInto(p *Value, v Value) {
	switch x := v.(type) {
	case Struct:
		if d, ok := (*p).(Struct); ok && len(d) == len(x) {
			for i := range x {
				storeInto(&d[i], x[i])
			}
			return
		}
	case Array:
		if d, ok := (*p).(Array); ok && len(d) == len(x) {
			for i := range x {
				storeInto(&d[i], x[i])
			}
			return
		}
	}
	*p = copyVal(v)
}

func describe(v Value) string {
	switch x := v.(type) {
	case *Term:
		if x.isC() {
			return fmt.Sprintf("%d", x.sval())
		}
		return "<sym>"
	case Str:
		if s, ok := x.concrete(); ok {
			return fmt.Sprintf("%q", s)
		}
		return fmt.Sprintf("<symstr len %d>", len(x.b))
	}
	return fmt.Sprintf("%T", v)
}
