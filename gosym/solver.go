package main

// One long-lived SMT solver process per worker; the path condition is mirrored as a push/pop
// stack so that the prefix shared with the previous query is never re-asserted.

import (
	"bufio"
	"fmt"
	"io"
	"os"
	"os/exec"
	"strconv"
	"strings"
	"time"
)

type frameDefs struct {
	term *Term
	defs []int
}

type Solver struct {
	kind  string // "z3new" | "z3old" | "cvc5" | "cvc5int"
	cmd   *exec.Cmd
	in    *bufio.Writer
	inRaw io.WriteCloser
	out   *bufio.Reader
	nDecl int
	stack []frameDefs
	seen  map[int]bool

	queries   int
	sat       int
	unsat     int
	unknown   int
	errors    int
	dur       time.Duration
	maxQuery  time.Duration
	fallbacks int
	logf      *os.File

	watchdogKills int
}

var solverTimeoutMs = 1500 // incremental queries; slow ones are re-decided one-shot by a portfolio
var oneShotTimeoutMs = 12000
var longTimeoutMs = 60000

func solverArgv(kind string) []string {
	switch kind {
	case "z3new":
		return []string{"z3-new", "-in"}
	case "z3old":
		return []string{"z3", "-in"}
	case "cvc5":
		return []string{"cvc5", "--incremental", "--produce-models", fmt.Sprintf("--tlimit-per=%d", longTimeoutMs), "--lang=smt2"}
	case "cvc5int":
		return []string{"cvc5", "--incremental", "--produce-models", "--solve-bv-as-int=sum", fmt.Sprintf("--tlimit-per=%d", longTimeoutMs), "--lang=smt2"}
	}
	panic("solver kind " + kind)
}

func NewSolver(kind string) *Solver {
	s := &Solver{kind: kind}
	if p := os.Getenv("GOSYM_SMTLOG"); p != "" {
		s.logf, _ = os.Create(fmt.Sprintf("%s.%d.smt2", p, os.Getpid()))
	}
	s.start()
	return s
}

// start launches (or re-launches) the solver process with an empty assertion stack.
func (s *Solver) start() {
	argv := solverArgv(s.kind)
	cmd := exec.Command(argv[0], argv[1:]...)
	in, _ := cmd.StdinPipe()
	out, _ := cmd.StdoutPipe()
	cmd.Stderr = os.Stderr
	if err := cmd.Start(); err != nil {
		panic(err)
	}
	s.cmd, s.inRaw, s.in, s.out = cmd, in, bufio.NewWriterSize(in, 1<<16), bufio.NewReaderSize(out, 1<<16)
	s.seen, s.stack, s.nDecl = map[int]bool{}, nil, 0
	if strings.HasPrefix(s.kind, "cvc5") {
		s.send("(set-logic QF_BV)")
	}
	s.send("(set-option :produce-models true)")
}

// checkSat sends (check-sat) and reads the verdict under a hard wall-clock limit: a solver that
// does not honour its own timeout is killed and restarted, and the query counts as unknown.
func (s *Solver) checkSat(limitMs int) (line string) {
	s.send("(check-sat)")
	s.in.Flush()
	proc := s.cmd.Process
	killed := false
	wd := time.AfterFunc(time.Duration(limitMs)*time.Millisecond, func() {
		killed = true
		proc.Kill()
	})
	defer func() {
		wd.Stop()
		if r := recover(); r != nil {
			if !killed {
				panic(r)
			}
			s.cmd.Wait()
			s.watchdogKills++
			s.start()
			line = "watchdog"
		}
	}()
	return s.readLine()
}

func (s *Solver) Close() {
	if s == nil {
		return
	}
	s.send("(exit)")
	s.in.Flush()
	s.inRaw.Close()
	done := make(chan struct{})
	go func() { s.cmd.Wait(); close(done) }()
	select {
	case <-done:
	case <-time.After(2 * time.Second):
		s.cmd.Process.Kill()
	}
	if s.logf != nil {
		s.logf.Close()
	}
}

func (s *Solver) send(l string) {
	s.in.WriteString(l)
	s.in.WriteByte('\n')
	if s.logf != nil {
		s.logf.WriteString(l + "\n")
	}
}

func declOf(v *Term) string {
	if v.w == 0 {
		return fmt.Sprintf("(declare-const %s Bool)", v.name)
	}
	return fmt.Sprintf("(declare-const %s (_ BitVec %d))", v.name, v.w)
}

// declarations are only ever sent at stack depth 0 so they survive pops.
func (s *Solver) syncDecls() {
	if s.nDecl == len(varDecls) {
		return
	}
	s.popTo(0)
	for ; s.nDecl < len(varDecls); s.nDecl++ {
		s.send(declOf(varDecls[s.nDecl]))
	}
}

func (s *Solver) popTo(n int) {
	for len(s.stack) > n {
		fr := s.stack[len(s.stack)-1]
		for _, id := range fr.defs {
			delete(s.seen, id)
		}
		s.stack = s.stack[:len(s.stack)-1]
		s.send("(pop 1)")
	}
}

func (s *Solver) pushAssert(t *Term) {
	s.send("(push 1)")
	p := &smtPrinter{seen: s.seen}
	r := p.ref(t)
	fr := frameDefs{term: t}
	for _, d := range p.defs {
		s.send(d)
	}
	// record ids defined in this frame
	for _, d := range p.defs {
		// "(define-fun t123 () ..." -> 123
		nm := d[len("(define-fun t"):]
		nm = nm[:strings.IndexByte(nm, ' ')]
		id, _ := strconv.Atoi(nm)
		fr.defs = append(fr.defs, id)
	}
	s.send("(assert " + r + ")")
	s.stack = append(s.stack, fr)
}

func (s *Solver) syncPC(pc []*Term) {
	s.syncDecls()
	k := 0
	for k < len(pc) && k < len(s.stack) && s.stack[k].term == pc[k] {
		k++
	}
	s.popTo(k)
	for ; k < len(pc); k++ {
		s.pushAssert(pc[k])
	}
}

func (s *Solver) readLine() string {
	for {
		l, err := s.out.ReadString('\n')
		if err != nil {
			panic(engineError{"solver died: " + err.Error()})
		}
		l = strings.TrimSpace(l)
		if l != "" {
			return l
		}
	}
}

// Check decides sat(pc ∧ extra). res: "sat" | "unsat" | "unknown". A model over `vars` is returned on sat.
func (s *Solver) Check(pc []*Term, extra *Term, vars []*Term) (string, Model) {
	t0 := time.Now()
	s.syncPC(pc)
	n := len(s.stack)
	if extra != nil {
		s.pushAssert(extra)
	}
	isZ3 := strings.HasPrefix(s.kind, "z3")
	if isZ3 {
		s.send(fmt.Sprintf("(set-option :timeout %d)", solverTimeoutMs))
	}
	hard := 3*longTimeoutMs + 5000
	if isZ3 {
		hard = 3*solverTimeoutMs + 10000
	}
	line := s.checkSat(hard)
	if line == "watchdog" {
		// the process was restarted with an empty stack: nothing to pop
		n = 0
		s.syncPC(pc)
		n = len(s.stack)
		if extra != nil {
			s.pushAssert(extra)
		}
	}
	if line != "sat" && line != "unsat" && !strings.HasPrefix(line, "(error") && s.kind == "z3new" {
		// stage 2: fresh one-shot portfolio (z3 QF_BV tactic, cvc5); stage 3: incremental again, long timeout
		if r2, m2 := portfolio(pc, extra, vars); r2 == "sat" || r2 == "unsat" {
			s.fallbacks++
			if r2 == "sat" {
				s.sat++
			} else {
				s.unsat++
			}
			s.popTo(n)
			d := time.Since(t0)
			s.dur += d
			if d > s.maxQuery {
				s.maxQuery = d
			}
			s.queries++
			return r2, m2
		}
		s.send(fmt.Sprintf("(set-option :timeout %d)", longTimeoutMs))
		line = s.checkSat(2*longTimeoutMs + 5000)
		if line == "watchdog" {
			s.unknown++
			s.queries++
			s.dur += time.Since(t0)
			return "unknown", nil
		}
	}
	if line == "watchdog" {
		s.unknown++
		s.queries++
		s.dur += time.Since(t0)
		return "unknown", nil
	}
	var model Model
	res := line
	switch {
	case line == "sat":
		s.sat++
		if len(vars) > 0 {
			model = s.getValues(vars)
		} else {
			model = Model{}
		}
	case line == "unsat":
		s.unsat++
	case strings.HasPrefix(line, "(error"):
		s.errors++
		res = "unknown"
		fmt.Fprintln(os.Stderr, "solver error:", line)
	default:
		res = "unknown"
	}
	s.popTo(n)
	if res == "unknown" {
		s.unknown++
	}
	d := time.Since(t0)
	s.dur += d
	if d > s.maxQuery {
		s.maxQuery = d
	}
	s.queries++
	return res, model
}

func (s *Solver) getValues(vars []*Term) Model {
	var sb strings.Builder
	sb.WriteString("(get-value (")
	for _, v := range vars {
		sb.WriteString(v.name)
		sb.WriteByte(' ')
	}
	sb.WriteString("))")
	s.send(sb.String())
	s.in.Flush()
	depth := 0
	var buf strings.Builder
	for {
		l, err := s.out.ReadString('\n')
		if err != nil {
			panic(engineError{"solver died in get-value"})
		}
		buf.WriteString(l)
		depth += strings.Count(l, "(") - strings.Count(l, ")")
		if depth <= 0 && strings.TrimSpace(buf.String()) != "" {
			break
		}
	}
	txt := buf.String()
	if strings.Contains(txt, "(error") {
		panic(engineError{"get-value error: " + txt})
	}
	m := Model{}
	// tokens: ((name val) (name val) ...), val may be "#x..", "#b..", "true", "false", "(_ bvN W)"
	txt = strings.NewReplacer("(", " ( ", ")", " ) ").Replace(txt)
	toks := strings.Fields(txt)
	for i := 0; i+2 < len(toks); i++ {
		if toks[i] != "(" {
			continue
		}
		v, ok := varByName[toks[i+1]]
		if !ok {
			continue
		}
		val := toks[i+2]
		var x uint64
		switch {
		case strings.HasPrefix(val, "#x"):
			x, _ = strconv.ParseUint(val[2:], 16, 64)
		case strings.HasPrefix(val, "#b"):
			x, _ = strconv.ParseUint(val[2:], 2, 64)
		case val == "true":
			x = 1
		case val == "false":
			x = 0
		case val == "(" && i+4 < len(toks) && toks[i+3] == "_" && strings.HasPrefix(toks[i+4], "bv"):
			x, _ = strconv.ParseUint(toks[i+4][2:], 10, 64)
		}
		m[v] = x
	}
	return m
}

// standalone script for cross-checking one query with another solver (one-shot process).
func standaloneScript(pc []*Term, extra *Term, logic bool) string {
	var sb strings.Builder
	if logic {
		sb.WriteString("(set-logic QF_BV)\n")
	}
	p := &smtPrinter{seen: map[int]bool{}}
	var asserts []string
	vars := map[*Term]bool{}
	var collect func(t *Term, seen map[*Term]bool)
	collect = func(t *Term, seen map[*Term]bool) {
		if seen[t] {
			return
		}
		seen[t] = true
		if t.op == "v" {
			vars[t] = true
		}
		for _, a := range t.args {
			collect(a, seen)
		}
	}
	seen := map[*Term]bool{}
	all := append(append([]*Term{}, pc...), extra)
	for _, t := range all {
		if t == nil {
			continue
		}
		collect(t, seen)
		asserts = append(asserts, "(assert "+p.ref(t)+")")
	}
	for _, v := range varDecls {
		if vars[v] {
			sb.WriteString(declOf(v) + "\n")
		}
	}
	for _, d := range p.defs {
		sb.WriteString(d + "\n")
	}
	for _, a := range asserts {
		sb.WriteString(a + "\n")
	}
	sb.WriteString("(check-sat)\n")
	return sb.String()
}

func oneShot(kind string, script string) string {
	var argv []string
	switch kind {
	case "z3old":
		argv = []string{"z3", "-in", "-t:60000"}
	case "z3new":
		argv = []string{"z3-new", "-in", "-t:60000"}
	case "cvc5":
		argv = []string{"cvc5", "--lang=smt2", "--tlimit=60000"}
	case "cvc5int":
		argv = []string{"cvc5", "--lang=smt2", "--solve-bv-as-int=sum", "--tlimit=60000"}
	}
	cmd := exec.Command(argv[0], argv[1:]...)
	cmd.Stdin = strings.NewReader(script)
	out, _ := cmd.CombinedOutput()
	txt := strings.TrimSpace(string(out))
	if strings.Contains(txt, "(error") {
		return "error"
	}
	for _, l := range strings.Split(txt, "\n") {
		l = strings.TrimSpace(l)
		if l == "sat" || l == "unsat" || l == "unknown" {
			return l
		}
	}
	return "unknown"
}

// portfolio decides pc ∧ extra with fresh one-shot solver processes (z3 5.1.0 with set-logic QF_BV,
// cvc5), returning the first definitive answer and, for sat, a model over vars.
func portfolio(pc []*Term, extra *Term, vars []*Term) (string, Model) {
	base := standaloneScript(pc, extra, false)
	// standaloneScript ends with (check-sat); add model retrieval
	var gv strings.Builder
	if len(vars) > 0 {
		gv.WriteString("(get-value (")
		for _, v := range vars {
			gv.WriteString(v.name + " ")
		}
		gv.WriteString("))\n")
	}
	// every variable requested must be declared even if it does not occur in the constraints
	var decl strings.Builder
	declared := map[string]bool{}
	for _, l := range strings.Split(base, "\n") {
		if strings.HasPrefix(l, "(declare-const ") {
			declared[strings.Fields(l)[1]] = true
		}
	}
	for _, v := range vars {
		if !declared[v.name] {
			decl.WriteString(declOf(v) + "\n")
		}
	}
	script := "(set-option :produce-models true)\n(set-logic QF_BV)\n" + decl.String() + base + gv.String()
	type ans struct {
		res string
		out string
	}
	ch := make(chan ans, 2)
	run := func(argv []string) *exec.Cmd {
		cmd := exec.Command(argv[0], argv[1:]...)
		cmd.Stdin = strings.NewReader(script)
		go func() {
			out, _ := cmd.CombinedOutput()
			txt := string(out)
			r := "unknown"
			for _, l := range strings.Split(txt, "\n") {
				l = strings.TrimSpace(l)
				if l == "sat" || l == "unsat" {
					r = l
					break
				}
				if strings.HasPrefix(l, "(error") {
					break // an error before the verdict: inconclusive
				}
			}
			if r == "sat" && strings.Contains(txt, "(error") {
				r = "unknown" // model retrieval failed
			}
			ch <- ans{r, txt}
		}()
		return cmd
	}
	c1 := run([]string{"z3-new", "-in", fmt.Sprintf("-t:%d", oneShotTimeoutMs)})
	c2 := run([]string{"cvc5", "--lang=smt2", "--produce-models", fmt.Sprintf("--tlimit=%d", oneShotTimeoutMs)})
	// hard limit: a process that ignores its own time limit is killed (its answer is then unknown)
	hard := time.AfterFunc(time.Duration(2*oneShotTimeoutMs+3000)*time.Millisecond, func() {
		for _, c := range []*exec.Cmd{c1, c2} {
			if c.Process != nil {
				c.Process.Kill()
			}
		}
	})
	defer hard.Stop()
	var got ans
	for i := 0; i < 2; i++ {
		a := <-ch
		if a.res == "sat" || a.res == "unsat" {
			got = a
			break
		}
	}
	for _, c := range []*exec.Cmd{c1, c2} {
		if c.Process != nil {
			c.Process.Kill()
		}
	}
	if got.res == "sat" {
		return "sat", parseValues(got.out)
	}
	if got.res == "unsat" {
		return "unsat", nil
	}
	if p := os.Getenv("GOSYM_DUMPHARD"); p != "" {
		os.WriteFile(fmt.Sprintf("%s.%d.smt2", p, time.Now().UnixNano()), []byte(script), 0644)
	}
	return "unknown", nil
}

func parseValues(txt string) Model {
	m := Model{}
	txt = strings.NewReplacer("(", " ( ", ")", " ) ").Replace(txt)
	toks := strings.Fields(txt)
	for i := 0; i+2 < len(toks); i++ {
		if toks[i] != "(" {
			continue
		}
		v, ok := varByName[toks[i+1]]
		if !ok {
			continue
		}
		val := toks[i+2]
		var x uint64
		switch {
		case strings.HasPrefix(val, "#x"):
			x, _ = strconv.ParseUint(val[2:], 16, 64)
		case strings.HasPrefix(val, "#b"):
			x, _ = strconv.ParseUint(val[2:], 2, 64)
		case val == "true":
			x = 1
		case val == "false":
			x = 0
		case val == "(" && i+4 < len(toks) && toks[i+3] == "_" && strings.HasPrefix(toks[i+4], "bv"):
			x, _ = strconv.ParseUint(toks[i+4][2:], 10, 64)
		default:
			continue
		}
		m[v] = x
	}
	return m
}
