package session

import (
	"strconv"
	"time"

	"github.com/b2broker/simplefix-go/fix"
	"github.com/b2broker/simplefix-go/session/messages"
	"github.com/b2broker/simplefix-go/storages/memory"
	fixgen "github.com/b2broker/simplefix-go/tests/fix44"
	zz "github.com/b2broker/simplefix-go/zzverif"
)

// checkStamped asserts the header of one transmitted message: 34 == wantSeq, 49/56 == ids,
// 52 in FIX timestamp format and taken between t0 and t1.
func checkStamped(o []byte, wantSeq int, sender, target []byte, t0, t1 time.Time) {
	v, ok := fieldOf(o, "34")
	zz.Assert(zz.And(ok, atoi(v) == wantSeq), "C05: message does not carry the next consecutive sequence number")
	v, ok = fieldOf(o, "49")
	zz.Assert(zz.And(ok, zz.EqBytes(v, sender)), "C05: SenderCompID is not the session's")
	v, ok = fieldOf(o, "56")
	zz.Assert(zz.And(ok, zz.EqBytes(v, target)), "C05: TargetCompID is not the session's")
	v, ok = fieldOf(o, "52")
	zz.Assert(ok, "C05: SendingTime missing")
	ts, err := time.Parse(fix.TimeLayout, string(v))
	zz.Assert(err == nil, "C05: SendingTime is not in FIX timestamp format")
	zz.Assert(!ts.Before(t0.Truncate(time.Millisecond)), "C05: SendingTime is earlier than the send call")
	zz.Assert(!ts.After(t1), "C05: SendingTime is later than the send call")
}

// H_C05_step: inductive step of the numbering. params: [role, nClass, what, resetFlag]
// The outgoing counter is set to a symbolic n; one message is produced (what: 0..2 application
// Send of three types, 3 reply to an inbound TestRequest, 4 Reject of an invalid message,
// 5 heartbeat-timer expiry, 6 silence-timer expiry); it must carry n+1 and the session's ids.
func H_C05_step() {
	role, what := zz.Param(0), zz.Param(3-1)
	zz.Class("what=" + strconv.Itoa(what) + "/role=" + strconv.Itoa(role))
	zz.TimerStub(true)
	st := memory.NewStorage()
	sender, target := zz.Bytes(2), zz.Bytes(3) // the peer's ids in its Logon (acceptor mirrors them)
	var f *fx
	var mySender, myTarget []byte
	peer, me := string(sender), string(target)
	if role == 0 {
		f = newAcceptor(st, 1, 60, 0, "0")
		lg := fixgen.CreateLogon("0", 30)
		if zz.Param(3) == 1 {
			lg.SetResetSeqNumFlag(zz.Bool())
		}
		setHdr(lg.Header(), peer, me, 1)
		first := f.serve(wire(lg))
		zz.Assume(f.s.IsLogged())
		mySender, myTarget = target, sender // mirrored
		v, _ := fieldOf(first[0], "34")
		zz.Assert(atoi(v) == 1, "C05: the Logon answer is not message number 1")
	} else {
		f = newInitiator(st, 30, "0", "user", "pw", 0)
		first := f.h.VerifOut()
		v, _ := fieldOf(first[0], "34")
		zz.Assert(atoi(v) == 1, "C05: the initiator's Logon is not message number 1")
		lg := fixgen.CreateLogon("0", 30)
		if zz.Param(3) == 1 {
			lg.SetResetSeqNumFlag(zz.Bool())
		}
		setHdr(lg.Header(), "SRV", "CLI", 1)
		_ = f.serve(wire(lg))
		zz.Assume(f.s.IsLogged())
		mySender, myTarget = []byte("CLI"), []byte("SRV")
		peer, me = "SRV", "CLI"
	}
	_ = f.h.VerifOut()
	zz.Yield()
	// the message after the logon exchange is number 2 (no reset, no gap)
	cur, _ := st.GetCurrSeqNum(fix.StorageID{Side: fix.Outgoing})
	zz.Assert(cur == 1, "C05: the outgoing counter is not 1 after the logon exchange")
	var n int
	if zz.Param(1) == 0 {
		n = zz.IntIn(1, 8)
	} else {
		n = zz.IntIn(10, 98)
	}
	_ = st.SetSeqNum(fix.StorageID{Side: fix.Outgoing}, n)
	t0 := time.Now()
	switch what {
	case 0:
		zz.Assert(f.s.Send(fixgen.CreateHeartbeat()) == nil, "C05: Send failed")
	case 1:
		zz.Assert(f.s.Send(fixgen.CreateTestRequest(string(zz.Bytes(2)))) == nil, "C05: Send failed")
	case 2:
		zz.Assert(f.s.Send(fixgen.CreateReject(3)) == nil, "C05: Send failed")
	case 3:
		b, _ := mkInbound(mTestRequest, peer, me, 2)
		_ = f.h.VerifServe(b)
	case 4:
		b, _ := mkInbound(mHeartbeat, peer, me, 2)
		_ = f.h.VerifServe(applyDamage(b, dmgChecksum, ""))
	case 5:
		zz.FireTimer(1)
		zz.Yield()
	case 6:
		zz.FireTimer(0)
		zz.Yield()
	}
	t1 := time.Now()
	out := f.h.VerifOut()
	zz.Reach("sent")
	zz.Assert(len(out) == 1, "C05: exactly one message must be transmitted")
	checkStamped(out[0], n+1, mySender, myTarget, t0, t1)
	cur, _ = st.GetCurrSeqNum(fix.StorageID{Side: fix.Outgoing})
	zz.Assert(cur == n+1, "C05: the counter is not advanced by exactly one")
	// a later session on the same counter store continues the numbering
	if what == 0 {
		f2 := newInitiator(st, 30, "0", "user", "pw", 0)
		o2 := f2.h.VerifOut()
		v, _ := fieldOf(o2[0], "34")
		zz.Assert(atoi(v) == n+2, "C05: a later session sharing the counter store does not continue the numbering")
	}
}

// H_C05_sched: two or three concurrent producers, every interleaving at synchronisation
// operations. params: [role, combo, buffer]
// combo 0: two application Sends; 1: application Send + reply to an inbound TestRequest;
// 2: application Send + heartbeat-timer expiry; 3: Send + Reject on the inbound path; 4: three-way (Send, Send, inbound reply)
func H_C05_sched() {
	role, combo := zz.Param(0), zz.Param(1)
	zz.Class("combo=" + strconv.Itoa(combo) + "/role=" + strconv.Itoa(role))
	zz.TimerStub(true)
	f := loggedOn(role, memory.NewStorage())
	zz.Assume(f.s.IsLogged())
	_ = f.h.VerifOut()
	peer, me := "CLI", "SRV"
	if role == 1 {
		peer, me = "SRV", "CLI"
	}
	zz.Yield()
	cur, _ := f.st.GetCurrSeqNum(fix.StorageID{Side: fix.Outgoing})
	var app1, app2 messages.Message = fixgen.CreateHeartbeat(), fixgen.CreateTestRequest("x")
	// concrete inbound messages: only the interleaving is explored here
	tr := fixgen.CreateTestRequest("id")
	setHdr(tr.Header(), peer, me, 2)
	inb := wire(tr)
	hbm := fixgen.CreateHeartbeat()
	setHdr(hbm.Header(), peer, me, 3)
	bad := wire(hbm)
	if bad[len(bad)-2] == '0' {
		bad[len(bad)-2] = '1'
	} else {
		bad[len(bad)-2] = '0'
	}
	want := 2
	if combo == 4 {
		zz.PreemptionBound(1)
	}
	zz.ExploreSchedules(true)
	zz.Go(func() { _ = f.s.Send(app1) })
	switch combo {
	case 0:
		zz.Go(func() { _ = f.s.Send(app2) })
	case 1:
		zz.Go(func() { _ = f.h.VerifServe(inb) })
	case 2:
		zz.FireTimer(1)
	case 3:
		zz.Go(func() { _ = f.h.VerifServe(bad) })
	case 4:
		zz.Go(func() { _ = f.s.Send(app2) })
		zz.Go(func() { _ = f.h.VerifServe(inb) })
		want = 3
	}
	zz.WaitAll2(2) // wait until the timer goroutines are parked again and the producers are done
	zz.ExploreSchedules(false)
	out := f.h.VerifOut()
	zz.Reach("done")
	zz.Assert(len(out) == want, "C05: the number of transmitted messages differs from the number produced")
	for i, o := range out {
		v, _ := fieldOf(o, "34")
		zz.Assert(atoi(v) == cur+1+i, "C05: sequence numbers on the wire are not consecutive and ascending (gap, duplicate or reordering)")
	}
}

// H_C05_buffer: small outbound buffers with a concurrent writer. One goroutine sends n messages one
// after the other (optionally a second goroutine sends one more) while a consumer takes the
// messages from the outbound queue the way the connection writer does. Every schedule must put
// 1,2,3,... on the wire in order. params: [role, buf, n, second sender, preemption bound, rotation]
func H_C05_buffer() {
	role, buf, n, second := zz.Param(0), zz.Param(1), zz.Param(2), zz.Param(3)
	zz.Class("role=" + strconv.Itoa(role) + "/buf=" + strconv.Itoa(buf) + "/n=" + strconv.Itoa(n) + "/second=" + strconv.Itoa(second))
	zz.TimerStub(true)
	fxBuf = buf
	st := memory.NewStorage()
	var f *fx
	var got [][]byte
	total := n + second + 1
	zz.Assume(buf >= 1) // the logon exchange below runs before the writer exists
	lg := fixgen.CreateLogon("0", 30)
	if role == 0 {
		f = newAcceptor(st, 1, 60, 0, "0")
		setHdr(lg.Header(), "CLI", "SRV", 1)
	} else {
		f = newInitiator(st, 30, "0", "user", "pw", 0)
		setHdr(lg.Header(), "SRV", "CLI", 1)
	}
	_ = f.h.VerifServe(wire(lg))
	zz.Assume(f.s.IsLogged())
	zz.Yield() // the two timer goroutines park on their timers
	zz.PreemptionBound(zz.Param(4))
	zz.CoarseSchedules(true)
	zz.PickRotation(zz.Param(5))
	zz.ExploreSchedules(true)
	zz.Go(func() {
		for len(got) < total {
			got = append(got, <-f.h.Outgoing())
		}
	})
	zz.Go(func() {
		for i := 0; i < n; i++ {
			_ = f.s.Send(fixgen.CreateTestRequest(strconv.Itoa(i)))
		}
	})
	if second == 1 {
		zz.Go(func() { _ = f.s.Send(fixgen.CreateHeartbeat()) })
	}
	zz.WaitAll2(2)
	zz.ExploreSchedules(false)
	zz.Reach("done")
	zz.Assert(len(got) == total, "C05: the number of messages on the wire differs from the number sent")
	for i, o := range got {
		v, _ := fieldOf(o, "34")
		zz.Assert(atoi(v) == i+1, "C05: with a small outbound buffer the sequence numbers reach the wire out of order")
	}
}

// H_C05_history: a multi-step history on one counter store in which the two directions carry
// different numbers of messages. Session 1 (acceptor): logon; the same message object is sent three
// times in a row (all three stay queued until the writer takes them); k further sends; j inbound
// heartbeats. Then either a later session on the same store (mode 0) or a logout and a second logon
// on the same session (mode 1), with the peer's Logon continuing its own numbering; one more send.
// Every outbound message carries the next number. params: [mode, k, j]
func H_C05_history() {
	mode, k, j := zz.Param(0), zz.Param(1), zz.Param(2)
	zz.Class("history/mode=" + strconv.Itoa(mode) + "/k=" + strconv.Itoa(k) + "/j=" + strconv.Itoa(j))
	zz.TimerStub(true)
	st := memory.NewStorage()
	f := newAcceptor(st, 1, 60, 0, "0")
	var w [][]byte
	w = append(w, f.logon("CLI", "SRV", 1, 30)...)
	zz.Assume(f.s.IsLogged())
	same := fixgen.CreateTestRequest(string(zz.Bytes(2)))
	for i := 0; i < 3; i++ {
		zz.Assert(f.s.Send(same) == nil, "fixture: Send failed")
	}
	w = append(w, f.h.VerifOut()...) // the writer takes all three only now
	for i := 0; i < k; i++ {
		zz.Assert(f.s.Send(fixgen.CreateHeartbeat()) == nil, "fixture: Send failed")
	}
	w = append(w, f.h.VerifOut()...)
	in := 2
	for i := 0; i < j; i++ {
		hb := fixgen.CreateHeartbeat()
		setHdr(hb.Header(), "CLI", "SRV", in)
		in++
		w = append(w, f.serve(wire(hb))...)
	}
	f2 := f
	if mode == 0 {
		f2 = newAcceptor(st, 1, 60, 0, "0")
	} else {
		lo := fixgen.CreateLogout()
		setHdr(lo.Header(), "CLI", "SRV", in)
		in++
		w = append(w, f.serve(wire(lo))...)
	}
	w = append(w, f2.logon("CLI", "SRV", in, 30)...)
	zz.Assume(f2.s.IsLogged())
	zz.Assert(f2.s.Send(fixgen.CreateHeartbeat()) == nil, "fixture: Send failed")
	w = append(w, f2.h.VerifOut()...)
	zz.Reach("done")
	for i, o := range w {
		v, _ := fieldOf(o, "34")
		zz.Assert(atoi(v) == i+1, "C05: over a history with unequal traffic in the two directions the outbound numbers are not 1,2,3,... (message "+strconv.Itoa(i+1)+")")
	}
}
