package session

import (
	"math"
	"strconv"

	"github.com/b2broker/simplefix-go/storages/memory"
	fixgen "github.com/b2broker/simplefix-go/tests/fix44"
	"github.com/b2broker/simplefix-go/utils"
	zz "github.com/b2broker/simplefix-go/zzverif"
)

// seqOfClass returns a symbolic sequence number with a fixed digit count (1 or 2 digits).
func seqOfClass(c int) int {
	if c == 2 {
		return zz.IntIn(10, 99)
	}
	return zz.IntIn(1, 9)
}

// loggedOn returns a fixture that has completed a logon (role 0: acceptor, 1: initiator).
func loggedOn(role int, st *memory.Storage) *fx {
	if role == 0 {
		f := newAcceptor(st, 1, 60, 0, "0")
		out := f.logon("CLI", "SRV", 1, 30)
		zz.Assume(len(out) >= 1)
		f.relog(role, 30)
		return f
	}
	f := newInitiator(st, 30, "0", "user", "pw", 0)
	_ = f.h.VerifOut()
	lg := fixgen.CreateLogon("0", 30)
	setHdr(lg.Header(), "SRV", "CLI", 1)
	_ = f.serve(wire(lg))
	f.relog(role, 30)
	return f
}

// fxRelog > 0: the logged-on pre-state is that of a second logon on the same session - the peer
// logged out (Logout exchange) and on again over the same connection. Harnesses set it from a
// parameter; timer and goroutine indexes of the logon in force then start at 2*fxRelog.
var fxRelog = 0

func (f *fx) relog(role, hb int) {
	if fxRelog == 0 || !f.s.IsLogged() {
		return
	}
	peer, me := "CLI", "SRV"
	if role == 1 {
		peer, me = "SRV", "CLI"
	}
	lo := fixgen.CreateLogout()
	setHdr(lo.Header(), peer, me, 2)
	_ = f.serve(wire(lo))
	zz.Assume(!f.s.IsLogged())
	_ = f.logon(peer, me, 3, hb)
	zz.Assume(f.s.IsLogged())
	_ = f.h.VerifOut()
	for k := range f.events {
		delete(f.events, k)
	}
}

// H_C14_echo: a logged-on session answers a TestRequest with exactly one Heartbeat echoing the ID.
// params: [role, idLen, pre (0 logged, 1 waiting for a TestRequest answer), seqClass, relog (1: second logon on the same session)]
func H_C14_echo() {
	fxRelog = zz.Param(4)
	f := loggedOn(zz.Param(0), memory.NewStorage())
	zz.Assert(f.s.IsLogged(), "fixture: logon failed")
	if zz.Param(2) == 1 {
		f.s.changeState(WaitingTestReqAnswer, true)
	}
	peer, me := "CLI", "SRV"
	if zz.Param(0) == 1 {
		peer, me = "SRV", "CLI"
	}
	id := zz.Bytes(zz.Param(1))
	tr := fixgen.CreateTestRequest(string(id))
	setHdr(tr.Header(), peer, me, seqOfClass(zz.Param(3)))
	out := f.serve(wire(tr))
	zz.Reach("answered")
	zz.Assert(len(out) == 1, "C14: a TestRequest must be answered by exactly one message")
	zz.Assert(isType(out[0], "0"), "C14: the answer to a TestRequest is not a Heartbeat")
	v, ok := fieldOf(out[0], "112")
	zz.Assert(ok, "C14: the Heartbeat carries no TestReqID")
	zz.Assert(len(v) == len(id), "C14: TestReqID length differs")
	zz.Assert(zz.EqBytes(v, id), "C14: TestReqID is not echoed byte for byte")
	n112 := 0
	for _, t := range tokens(out[0]) {
		if t.tag == "112" {
			n112++
		}
	}
	zz.Assert(n112 == 1, "C14: TestReqID appears more than once")
	// a second TestRequest right behind: again exactly one Heartbeat, with the second ID
	id2 := zz.Bytes(zz.Param(1))
	tr2 := fixgen.CreateTestRequest(string(id2))
	setHdr(tr2.Header(), peer, me, seqOfClass(zz.Param(3)))
	out2 := f.serve(wire(tr2))
	zz.Assert(len(out2) == 1, "C14: second TestRequest must be answered by exactly one message")
	v2, ok2 := fieldOf(out2[0], "112")
	zz.Assert(zz.And(isType(out2[0], "0"), ok2), "C14: second answer is not a Heartbeat with TestReqID")
	zz.Assert(zz.EqBytes(v2, id2), "C14: second TestReqID is not echoed byte for byte")
	zz.Observe("echo", v)
	zz.Observe("type", []byte(typeOf(out[0])))
}

// otherSessionTraffic fills the shared store through another, logged-on session.
func otherSessionTraffic(st *memory.Storage) {
	f0 := loggedOn(0, st)
	_ = f0.s.Send(fixgen.CreateTestRequest(string(zz.Bytes(2))))
	_ = f0.s.Send(fixgen.CreateHeartbeat())
	_ = f0.h.VerifOut()
}

// unacceptableLogon constrains / damages a symbolic Logon so that it must not be accepted.
// variant 0: encryption method not allowed; 1: heartbeat above the limit; 2: below; 3: application refuses;
// 4: no upper limit configured and an interval that overflows time.Duration (timers cannot be created)
func (f *fx) refuseVariant(variant int, b []byte) []byte {
	method, _ := fieldOf(b, "98")
	hb, _ := fieldOf(b, "108")
	switch variant {
	case 0:
		zz.Assume(method[0] != '0')
	case 1:
		zz.Assume(method[0] == '0')
		zz.Assume(atoi(hb) > 60)
	case 2:
		zz.Assume(method[0] == '0')
		zz.Assume(atoi(hb) < 20)
	case 4:
		zz.Assume(method[0] == '0') // acceptable in every respect except the interval's size
	default:
		f.approve = func(*LogonSettings) error { return errRefused }
	}
	return b
}

// H_C07_quiet: a session that has not completed a logon transmits nothing but Logon/Logout/Reject.
// params: [role, msgKind, damage, storeFilled, seqClass, logonVariant, -, -, -, hbVariant]
func H_C07_quiet() {
	st := memory.NewStorage()
	if zz.Param(3) == 1 {
		otherSessionTraffic(st)
	}
	role := zz.Param(0)
	var f *fx
	peer, me := "CLI", "SRV"
	fxHugeHB = 0
	if role == 0 && zz.Param(5) == 4 {
		// logonVariant 4: the acceptor has no upper heartbeat limit and the peer asks for an interval
		// that does not fit time.Duration: the timers cannot be created, the Logon is refused with a
		// Reject (params[7]: which value) - and must leave the session not logged on
		f = newAcceptor(st, 1, math.MaxInt64, 0, "0")
		fxHugeHB = []int{9223372037, 8784163846}[zz.Param(7)%2]
	} else if role == 0 {
		f = newAcceptor(st, 20, 60, 0, "0")
	} else {
		f = newInitiator(st, 30, "0", "user", "pw", 0)
		peer, me = "SRV", "CLI"
		first := f.h.VerifOut()
		for _, o := range first {
			zz.Assert(isType(o, "A"), "C07: initiator's first transmission is not a Logon")
		}
	}
	kind, dmg := zz.Param(1), zz.Param(2)
	zz.Class("kind=" + strconv.Itoa(kind) + "/dmg=" + strconv.Itoa(dmg) + "/role=" + strconv.Itoa(role) + "/pre=" + strconv.Itoa(zz.Param(6)))
	localLogout := zz.Param(6) == 1
	if localLogout {
		// the application may call Logout()/Stop() at any time, also on a session nobody logged on to
		_ = f.s.Logout()
		for _, o := range f.h.VerifOut() {
			zz.Assert(isType(o, "5"), "C07: Logout() transmits something other than a Logout")
		}
	}
	b, numTag := mkInbound(kind, peer, me, seqOfClass(zz.Param(4)))
	if kind == mLogon {
		if role == 1 && dmg == dmgNone {
			zz.Assume(false) // any well-formed Logon logs an initiator on: not part of this property
		}
		if dmg == dmgNone {
			b = f.refuseVariant(zz.Param(5), b)
		}
	}
	if (dmg == dmgNumField || dmg == dmgNumEmpty || dmg == dmgNumHuge) && numTag == "" {
		zz.Assume(false)
	}
	d := applyDamage(b, dmg, numTag)
	spawned := zz.Spawned()
	out := f.serve(d)
	zz.Reach("served")
	for _, o := range out {
		t := typeOf(o)
		ok := zz.Or(zz.EqStr(t, "A"), zz.Or(zz.EqStr(t, "5"), zz.EqStr(t, "3")))
		zz.Assert(ok, "C07: a message other than Logon/Logout/Reject is transmitted before logon")
	}
	zz.Assert(!f.s.IsLogged(), "C07: session is logged on without an acceptable Logon")
	zz.Assert(zz.Spawned() == spawned, "C07: timers started without a successful logon")
	if localLogout {
		return
	}
	if role == 0 {
		zz.Assert(f.s.state == WaitingLogon, "C07: accepting session left the waiting-for-logon state")
	} else {
		zz.Assert(f.s.state == WaitingLogonAnswer, "C07: initiating session left the waiting-for-answer state")
	}
}

func rejectOK(o []byte, seqVal []byte, seqUsable bool) bool {
	if !seqUsable {
		v, ok := fieldOf(o, "371")
		return zz.And(ok, zz.EqBytes(v, []byte("34")))
	}
	v, ok := fieldOf(o, "45")
	return zz.And(ok, zz.EqBytes(v, seqVal))
}

// H_C16_reject: an invalid or out-of-state admin message gets exactly one Reject and changes nothing.
// params: [role, pre (0 not logged, 1 logged), msgKind, damage, seqClass, extra (0 none, 1 also drop MsgSeqNum), follow]
func H_C16_reject() {
	role, pre, kind, dmg := zz.Param(0), zz.Param(1), zz.Param(2), zz.Param(3)
	fxRelog = zz.Param(6) // 1: the logged-on pre-state is that of a second logon on the same session
	zz.Class("kind=" + strconv.Itoa(kind) + "/dmg=" + strconv.Itoa(dmg) + "/pre=" + strconv.Itoa(pre) + "/role=" + strconv.Itoa(role))
	st := memory.NewStorage()
	var f *fx
	peer, me := "CLI", "SRV"
	if role == 1 {
		peer, me = "SRV", "CLI"
	}
	if pre == 1 {
		f = loggedOn(role, st)
	} else if role == 0 {
		f = newAcceptor(st, 1, 60, 0, "0")
	} else {
		f = newInitiator(st, 30, "0", "user", "pw", 0)
	}
	_ = f.h.VerifOut()
	for k := range f.events {
		delete(f.events, k)
	}
	wasLogged := f.s.IsLogged()
	seq := seqOfClass(zz.Param(4))
	b, numTag := mkInbound(kind, peer, me, seq)
	if (dmg == dmgNumField || dmg == dmgNumEmpty || dmg == dmgNumHuge) && numTag == "" {
		zz.Assume(false)
	}
	if dmg == dmgNone {
		// undamaged: must be a message that is not permitted in this state
		permitted := true
		switch kind {
		case mHeartbeat, mTestRequest, mResendRequest:
			permitted = pre == 1
		case mLogout:
			permitted = pre == 1
		case mLogon:
			permitted = pre == 0
		}
		if permitted {
			zz.Assume(false)
		}
	}
	d := applyDamage(b, dmg, numTag)
	seqUsable := dmg != dmgSeqAlpha && dmg != dmgSeqMissing && dmg != dmgSeqEmpty && dmg != dmgSeqHuge
	if zz.Param(5) == 1 && seqUsable {
		// additionally remove MsgSeqNum (only meaningful together with another defect)
		if dmg != dmgNone {
			zz.Assume(false)
		}
		d = dropSeqNum(d)
		seqUsable = false
	}
	seqVal, _ := fieldOf(b, "34")
	out := f.serve(d)
	zz.Reach("served")
	zz.Assert(len(out) == 1, "C16: an invalid admin message must be answered by exactly one message")
	zz.Assert(isType(out[0], "3"), "C16: the answer to an invalid admin message is not a Reject")
	zz.Assert(rejectOK(out[0], seqVal, seqUsable), "C16: the Reject does not reference the offending sequence number / tag")
	zz.Assert(f.s.IsLogged() == wasLogged, "C16: an invalid admin message changed whether the session is logged on")
	zz.Assert(!f.h.VerifStopped(), "C16: an invalid admin message stopped the handler")
	select {
	case <-f.s.ctx.Done():
		zz.Assert(false, "C16: an invalid admin message cancelled the session")
	default:
	}
	zz.Assert(len(f.events) == 0, "C16: an invalid admin message raised a session event")
	// valid traffic that follows is processed normally
	if wasLogged {
		id := zz.Bytes(2)
		tr := fixgen.CreateTestRequest(string(id))
		setHdr(tr.Header(), peer, me, seqOfClass(zz.Param(4)))
		o2 := f.serve(wire(tr))
		zz.Assert(len(o2) == 1, "C16: valid TestRequest after an invalid message is not answered once")
		v, ok := fieldOf(o2[0], "112")
		zz.Assert(zz.And(zz.And(isType(o2[0], "0"), ok), zz.EqBytes(v, id)), "C16: valid TestRequest after an invalid message is not answered by the echoing Heartbeat")
	} else {
		lg := fixgen.CreateLogon("0", 30)
		setHdr(lg.Header(), peer, me, seqOfClass(zz.Param(4)))
		o2 := f.serve(wire(lg))
		zz.Assert(f.s.IsLogged(), "C16: valid Logon after an invalid message does not log the session on")
		if role == 0 {
			zz.Assert(zz.And(len(o2) >= 1, isType(o2[0], "A")), "C16: valid Logon after an invalid message is not answered by a Logon")
		}
		zz.Assert(f.events[utils.EventLogon] == 1, "C16: logon event not raised exactly once")
	}
}

// H_dbg: development aid
func H_dbg() {
	f := loggedOn(0, memory.NewStorage())
	b, _ := mkInbound(mLogon, "CLI", "SRV", 7)
	out := f.serve(b)
	for _, o := range out {
		zz.Observe("out", o)
	}
}
