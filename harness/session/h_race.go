package session

import (
	"github.com/b2broker/simplefix-go/storages/memory"
	fixgen "github.com/b2broker/simplefix-go/tests/fix44"
	"github.com/b2broker/simplefix-go/utils"
	zz "github.com/b2broker/simplefix-go/zzverif"
)

// H_C20_lockset: every role that may run concurrently in a live session performs its step(s) with
// symbolic inputs while the engine records each load/store of library code with the set of mutexes
// held. The engine reports conflicting accesses of different roles with disjoint locksets.
// params: [side, inbound kind]
func H_C20_lockset() {
	zz.TimerStub(true)
	side := zz.Param(0)
	f := loggedOn(side, memory.NewStorage())
	zz.Assume(f.s.IsLogged())
	_ = f.h.VerifOut()
	zz.Yield() // the two timer goroutines run up to their first wait (roles are assigned by the engine)
	peer, me := "CLI", "SRV"
	if side == 1 {
		peer, me = "SRV", "CLI"
	}
	zz.Role("application sender 1")
	_ = f.s.Send(fixgen.CreateHeartbeat())
	_ = f.s.Send(fixgen.CreateTestRequest(string(zz.Bytes(2))))
	zz.Role("application sender 2")
	_ = f.s.Send(fixgen.CreateHeartbeat())
	zz.Role("inbound dispatch")
	{
		b, _ := mkInbound(zz.Param(1), peer, me, 2)
		_ = f.h.VerifServe(b)
	}
	zz.Role("state query")
	_ = f.s.IsLogged()
	zz.Role("event registration")
	f.s.OnChangeState(utils.EventLogout, func() bool { return true })
	zz.Role("")
	zz.FireTimer(1) // heartbeat goroutine iteration
	zz.Yield()
	zz.FireTimer(0) // silence goroutine iteration: TestRequest, state change
	zz.Yield()
	zz.Role("inbound dispatch")
	b, _ := mkInbound(mHeartbeat, peer, me, 3)
	_ = f.h.VerifServe(b)
	zz.Role("")
	zz.FireTimer(0)
	zz.Yield()
	// the peer asks for everything sent so far (timer-produced messages included) and the
	// timers expire once more afterwards
	zz.Role("inbound dispatch")
	rr := fixgen.CreateResendRequest(1, 0)
	setHdr(rr.Header(), peer, me, 4)
	_ = f.h.VerifServe(wire(rr))
	zz.Role("")
	zz.FireTimer(1)
	zz.Yield()
	zz.FireTimer(0)
	zz.Yield()
	zz.Role("inbound dispatch")
	_ = f.h.VerifServe(b)
	zz.Role("session stop")
	_ = f.s.Stop()
	zz.Role("inbound dispatch")
	lo := fixgen.CreateLogout()
	setHdr(lo.Header(), peer, me, 4)
	_ = f.h.VerifServe(wire(lo))
	zz.Role("")
	_ = f.h.VerifOut()
	zz.Reach("done")
}
