package session

import (
	"errors"
	"strconv"
	"time"

	simplefixgo "github.com/b2broker/simplefix-go"
	"github.com/b2broker/simplefix-go/fix"
	"github.com/b2broker/simplefix-go/session/messages"
	"github.com/b2broker/simplefix-go/storages/memory"
	fixgen "github.com/b2broker/simplefix-go/tests/fix44"
	"github.com/b2broker/simplefix-go/utils"
	zz "github.com/b2broker/simplefix-go/zzverif"
)

// sendMix sends k messages of mixed types with symbolic contents through Session.Send.
func sendMix(f *fx, k int) {
	for i := 0; i < k; i++ {
		var m messages.Message
		switch i % 3 {
		case 0:
			m = fixgen.CreateTestRequest(string(zz.Bytes(2)))
		case 1:
			m = fixgen.CreateHeartbeat().SetTestReqID(string(zz.Bytes(1)))
		default:
			m = fixgen.CreateReject(zz.IntIn(1, 9))
		}
		zz.Assert(f.s.Send(m) == nil, "fixture: Send failed")
	}
}

// H_C10_resend: a ResendRequest b..e is answered with exactly the first transmissions b..e.
// params: [role, k (messages sent after logon), bClass, eClass, twice]
// bClass/eClass: 0 -> symbolic 0..9, 1 -> symbolic 10..99
func H_C10_resend() {
	role := zz.Param(0)
	if zz.Param(6) == 1 {
		zz.TimerStub(true)
	}
	st := memory.NewStorage()
	var w [][]byte // w[i-1] = first transmission of message number i
	var f *fx
	peer, me := "CLI", "SRV"
	// param 5 = 1: the peer logs on ahead of sequence, so the session's own gap ResendRequest is
	// one of the stored messages
	logonSeq := 1
	if zz.Param(5) == 1 {
		logonSeq = 4
	}
	if role == 0 {
		f = newAcceptor(st, 1, 60, 0, "0")
		w = append(w, f.logon("CLI", "SRV", logonSeq, 30)...)
	} else {
		f = newInitiator(st, 30, "0", "user", "pw", 0)
		peer, me = "SRV", "CLI"
		w = append(w, f.h.VerifOut()...)
		lg := fixgen.CreateLogon("0", 30)
		setHdr(lg.Header(), "SRV", "CLI", logonSeq)
		w = append(w, f.serve(wire(lg))...)
	}
	zz.Assume(f.s.IsLogged())
	inSeq := 2
	if zz.Param(6) == 1 {
		// history produced by the session itself: TestRequest (silence timer), answered, a second
		// TestRequest, two Heartbeats (heartbeat timer), an echo of the peer's TestRequest
		zz.Yield()
		for i := 0; i < 2; i++ {
			zz.FireTimer(0)
			zz.Yield()
			w = append(w, f.h.VerifOut()...)
			hb := fixgen.CreateHeartbeat()
			setHdr(hb.Header(), peer, me, inSeq)
			inSeq++
			w = append(w, f.serve(wire(hb))...)
		}
		for i := 0; i < 2; i++ {
			zz.FireTimer(1)
			zz.Yield()
			w = append(w, f.h.VerifOut()...)
		}
		tr := fixgen.CreateTestRequest(string(zz.Bytes(2)))
		setHdr(tr.Header(), peer, me, inSeq)
		inSeq++
		w = append(w, f.serve(wire(tr))...)
		zz.Assume(f.s.IsLogged())
	}
	sendMix(f, zz.Param(1))
	w = append(w, f.h.VerifOut()...)
	last := len(w)
	for i, m := range w {
		v, _ := fieldOf(m, "34")
		zz.Assert(atoi(v) == i+1, "fixture: first transmissions are not numbered 1..last")
		w[i] = append([]byte{}, m...)
	}
	rounds := 1 + zz.Param(4)
	rng := func(c int) int {
		if c == 1 {
			return zz.IntIn(10, 99)
		}
		if rounds > 1 {
			return zz.IntIn(0, 4) // two requests: smaller ranges (25 x 25 range pairs per job)
		}
		return zz.IntIn(0, 9)
	}
	for r := 0; r < rounds; r++ {
		b, e := rng(zz.Param(2)), rng(zz.Param(3))
		rr := fixgen.CreateResendRequest(b, e)
		setHdr(rr.Header(), peer, me, inSeq+r)
		out := f.serve(wire(rr))
		zz.Reach("served")
		if zz.Param(2) == 0 && zz.Param(3) == 0 {
			// concretise the range (small): the comparison below indexes w
			bc, ec := zz.Concrete(b), zz.Concrete(e)
			zz.Class("b=" + strconv.Itoa(bc) + "/e=" + strconv.Itoa(ec) + "/last=" + strconv.Itoa(last))
			hi := ec
			if ec == 0 {
				hi = last
			}
			if bc >= 1 && bc <= hi && hi <= last {
				zz.Assert(len(out) == hi-bc+1, "C10: the number of retransmitted messages differs from the requested range")
				for i := bc; i <= hi; i++ {
					zz.Assert(zz.EqBytes(out[i-bc], w[i-1]), "C10: retransmission is not byte-identical to the first transmission / not in ascending order")
				}
				continue
			}
		}
		// ranges (partly) outside 1..last: nothing outside the requested range, nothing new
		zz.Class("outside")
		for _, o := range out {
			if isType(o, "3") {
				continue // a Reject of the request itself is not a retransmission
			}
			found := false
			for i := 1; i <= last; i++ {
				in := zz.And(b <= i, zz.Or(e == 0, i <= e))
				found = zz.Or(found, zz.And(in, zz.EqBytes(o, w[i-1])))
			}
			zz.Assert(found, "C10: a message outside the requested range (or a new one) is transmitted in answer to a ResendRequest")
		}
	}
}

// H_C10_long: a long history with concrete contents (one symbolic byte per message), optionally
// starting with a message the session sent before the logon (the Reject of a pre-logon Heartbeat,
// which takes number 1): the ResendRequest b..e (e = 0: through the last) is answered with exactly
// the first transmissions b..e. params: [role, n (application sends), b, e, prelogon, relogon under other ids]
func H_C10_long() {
	role, n, b, e := zz.Param(0), zz.Param(1), zz.Param(2), zz.Param(3)
	zz.Class("long/n=" + strconv.Itoa(n) + "/b=" + strconv.Itoa(b) + "/e=" + strconv.Itoa(e) + "/pre=" + strconv.Itoa(zz.Param(4)))
	st := memory.NewStorage()
	var w [][]byte
	var f *fx
	peer, me := "CLI", "SRV"
	inSeq := 1
	fxBuf = 256 // the whole retransmission has to fit into the outbound queue (no writer here)
	if role == 0 {
		f = newAcceptor(st, 1, 60, 0, "0")
	} else {
		f = newInitiator(st, 30, "0", "user", "pw", 0)
		peer, me = "SRV", "CLI"
		w = append(w, f.h.VerifOut()...)
	}
	if zz.Param(4) == 1 {
		hb := fixgen.CreateHeartbeat()
		setHdr(hb.Header(), peer, me, inSeq)
		inSeq++
		w = append(w, f.serve(wire(hb))...) // rejected: not logged on
	}
	w = append(w, f.logon(peer, me, inSeq, 30)...)
	inSeq++
	zz.Assume(f.s.IsLogged())
	x := zz.Byte()
	zz.Assume(zz.And(x >= 'a', x <= 'z'))
	for i := 0; i < n; i++ {
		zz.Assert(f.s.Send(fixgen.CreateTestRequest(string([]byte{x, byte('0' + i%10)}))) == nil, "fixture: Send failed")
		w = append(w, f.h.VerifOut()...)
	}
	if zz.Param(5) == 1 && role == 0 {
		// logout exchange and a second logon on the same connection, under another SenderCompID
		// (the acceptor mirrors the ids of each Logon), then two more sends
		lo := fixgen.CreateLogout()
		setHdr(lo.Header(), peer, me, inSeq)
		inSeq++
		w = append(w, f.serve(wire(lo))...)
		peer = "CL2"
		w = append(w, f.logon(peer, me, inSeq, 30)...)
		inSeq++
		zz.Assume(f.s.IsLogged())
		for i := 0; i < 2; i++ {
			zz.Assert(f.s.Send(fixgen.CreateHeartbeat()) == nil, "fixture: Send failed")
			w = append(w, f.h.VerifOut()...)
		}
	}
	last := len(w)
	for i := range w {
		w[i] = append([]byte{}, w[i]...)
	}
	rr := fixgen.CreateResendRequest(b, e)
	setHdr(rr.Header(), peer, me, inSeq)
	out := f.serve(wire(rr))
	zz.Reach("served")
	hi := e
	if e == 0 {
		hi = last
	}
	zz.Assume(b >= 1 && b <= hi && hi <= last)
	zz.Assert(len(out) == hi-b+1, "C10: the number of retransmitted messages differs from the requested range (long history)")
	for i := b; i <= hi && i-b < len(out); i++ {
		zz.Assert(zz.EqBytes(out[i-b], w[i-1]), "C10: retransmission is not byte-identical to the first transmission / not in ascending order (long history)")
	}
}

// H_C10_gap: a Logon whose sequence number is ahead of the expected one triggers a ResendRequest
// starting at the first missing number. params: [role, cClass, nClass]
func H_C10_gap() {
	role := zz.Param(0)
	st := memory.NewStorage()
	rng := func(c int) int {
		if c == 1 {
			return zz.IntIn(10, 99)
		}
		return zz.IntIn(0, 9)
	}
	c := rng(zz.Param(1)) // last sequence number received so far (stored)
	n := rng(zz.Param(2))
	zz.Assume(n >= 1)
	_ = st.SetSeqNum(fix.StorageID{Side: fix.Incoming}, c)
	var f *fx
	var out [][]byte
	lg := fixgen.CreateLogon("0", 30)
	if role == 0 {
		f = newAcceptor(st, 1, 60, 0, "0")
		setHdr(lg.Header(), "CLI", "SRV", n)
		out = f.serve(wire(lg))
	} else {
		f = newInitiator(st, 30, "0", "user", "pw", 0)
		_ = f.h.VerifOut()
		setHdr(lg.Header(), "SRV", "CLI", n)
		out = f.serve(wire(lg))
	}
	zz.Reach("served")
	zz.Assume(f.s.IsLogged())
	nrr := 0
	var rr []byte
	for _, o := range out {
		if isType(o, "2") {
			nrr++
			rr = o
		}
	}
	gap := n > c+1
	if gap {
		zz.Class("gap")
		zz.Assert(nrr == 1, "C10: a Logon ahead of the expected sequence number does not trigger exactly one ResendRequest")
		v7, _ := fieldOf(rr, "7")
		zz.Assert(atoi(v7) == c+1, "C10: the ResendRequest does not start at the first missing sequence number")
		v16, _ := fieldOf(rr, "16")
		ec := atoi(v16)
		zz.Assert(zz.Or(ec == 0, ec >= n-1), "C10: the ResendRequest does not cover the missing range")
	} else {
		zz.Class("nogap")
		zz.Assert(nrr == 0, "C10: a ResendRequest is sent although no message is missing")
	}
}

// H_C15_logout: Logout handling. params: [role, scenario, pre (1: waiting for a TestRequest answer)]
// 0: logged on, inbound Logout -> exactly one Logout, not logged on
// 1: local Logout(), then inbound Logout -> nothing transmitted by the second step, logout event once
// 2: Stop(), then inbound Logout -> context cancelled by the answer (deadline timer not fired)
// 3: Stop(), no answer, deadline fires -> context cancelled
// 5: local Logout(), a whole silent period (probe), then the peer's answer -> no second Logout, logout event once
// 4: Stop() whose Logout is refused by an application outgoing handler, deadline fires -> context cancelled
// 6/7: local Logout(), then Stop() before the peer answered -> cancelled by the answer (6) / at the deadline (7)
func H_C15_logout() {
	role, sc := zz.Param(0), zz.Param(1)
	if sc == 5 {
		zz.TimerStub(true)
	}
	zz.Class("scenario=" + strconv.Itoa(sc) + "/role=" + strconv.Itoa(role))
	st := memory.NewStorage()
	ct := time.Duration(zz.IntIn(0, 1<<40))
	var f *fx
	peer, me := "CLI", "SRV"
	if role == 0 {
		f = newAcceptor(st, 1, 60, ct, "0")
		f.logon("CLI", "SRV", 1, 30)
	} else {
		f = newInitiator(st, 30, "0", "user", "pw", ct)
		peer, me = "SRV", "CLI"
		_ = f.h.VerifOut()
		lg := fixgen.CreateLogon("0", 30)
		setHdr(lg.Header(), "SRV", "CLI", 1)
		_ = f.serve(wire(lg))
	}
	zz.Assume(f.s.IsLogged())
	for k := range f.events {
		delete(f.events, k)
	}
	if zz.Param(2) == 1 {
		// the session has probed a silent peer and waits for the answer (still a logged-on session)
		f.s.changeState(WaitingTestReqAnswer, true)
		_ = f.h.VerifOut()
	}
	ctx0 := f.s.Context() // what the application holds since before the end of the session
	cancelled := func() bool {
		select {
		case <-ctx0.Done():
			return true
		default:
			return false
		}
	}
	peerLogout := func(seq int) []byte {
		lo := fixgen.CreateLogout()
		setHdr(lo.Header(), peer, me, seq)
		return wire(lo)
	}
	switch sc {
	case 0:
		out := f.serve(peerLogout(2))
		zz.Reach("served")
		zz.Assert(len(out) == 1, "C15: a peer Logout is not answered by exactly one message")
		zz.Assert(isType(out[0], "5"), "C15: the answer to a peer Logout is not a Logout")
		zz.Assert(!f.s.IsLogged(), "C15: still logged on after the peer's Logout")
		// a second Logout must not be acknowledged again as if logged on
		out2 := f.serve(peerLogout(3))
		for _, o := range out2 {
			zz.Assert(!isType(o, "5"), "C15: a second Logout is acknowledged again")
		}
	case 1:
		zz.Assert(f.s.Logout() == nil, "C15: Logout() failed")
		o1 := f.h.VerifOut()
		zz.Assert(zz.And(len(o1) == 1, isType(o1[0], "5")), "C15: Logout() does not transmit exactly one Logout")
		zz.Assert(!f.s.IsLogged(), "C15: still logged on after a local Logout")
		out := f.serve(peerLogout(2))
		zz.Reach("served")
		zz.Assert(len(out) == 0, "C15: a second Logout is sent when the peer's answer arrives")
		zz.Assert(f.events[utils.EventLogout] == 1, "C15: the logout event is not raised exactly once")
		zz.Assert(!f.s.IsLogged(), "C15: logged on after the logout handshake")
	case 5:
		// local Logout(); the peer stays silent for a whole period (the session probes it) and only
		// then answers: still no second Logout, the logout event once, not logged on
		zz.Assert(f.s.Logout() == nil, "C15: Logout() failed")
		o1 := f.h.VerifOut()
		zz.Assert(zz.And(len(o1) == 1, isType(o1[0], "5")), "C15: Logout() does not transmit exactly one Logout")
		zz.Yield()
		zz.FireTimer(0)
		zz.Yield()
		_ = f.h.VerifOut() // the probe
		out := f.serve(peerLogout(2))
		zz.Reach("served")
		for _, o := range out {
			zz.Assert(!isType(o, "5"), "C15: a second Logout is sent when the peer's answer arrives after a probe")
		}
		zz.Assert(f.events[utils.EventLogout] == 1, "C15: the logout event is not raised exactly once when the answer arrives after a probe")
		zz.Assert(!f.s.IsLogged(), "C15: logged on after the logout handshake")
	case 4:
		// Stop() while an application outgoing handler refuses the Logout (it is not transmitted,
		// C19): the session must still end at the latest when the close timeout elapses
		f.h.HandleOutgoing("5", func(simplefixgo.SendingMessage) bool { return false })
		n0 := zz.AfterFuncs()
		_ = f.s.Stop()
		o1 := f.h.VerifOut()
		zz.Assert(len(o1) == 0, "C19: a refused Logout is transmitted")
		zz.Reach("stopped")
		if !cancelled() {
			zz.Assert(zz.AfterFuncs() == n0+1, "C15: Stop() neither cancels nor arms the close-timeout timer when its Logout could not be sent")
			zz.AfterFuncFire(n0)
		}
		zz.Assert(cancelled(), "C15: the session context is not cancelled when the close timeout elapses after a Logout that could not be sent")
	case 6, 7:
		// local Logout(), then Stop() while the peer's answer is still outstanding: the session ends
		// on the peer's answer (6) or, without one, when the close timeout elapses (7)
		zz.Assert(f.s.Logout() == nil, "C15: Logout() failed")
		_ = f.h.VerifOut()
		n0 := zz.AfterFuncs()
		_ = f.s.Stop()
		_ = f.h.VerifOut()
		zz.Reach("stopped")
		if sc == 6 {
			_ = f.serve(peerLogout(2))
			zz.Reach("served")
			zz.Assert(cancelled(), "C15: Stop() after a local Logout(): the session context is not cancelled when the peer's Logout answer arrives")
		} else {
			if !cancelled() {
				zz.Assert(zz.AfterFuncs() >= n0+1, "C15: Stop() after a local Logout() neither cancels nor arms the close-timeout timer")
				for k := n0; k < zz.AfterFuncs(); k++ {
					zz.AfterFuncFire(k)
				}
			}
			zz.Reach("fired")
			zz.Assert(cancelled(), "C15: Stop() after a local Logout(): the session context is not cancelled when the close timeout elapses")
		}
	case 2, 3:
		n0 := zz.AfterFuncs()
		zz.Assert(f.s.Stop() == nil, "C15: Stop() failed")
		o1 := f.h.VerifOut()
		zz.Assert(zz.And(len(o1) == 1, isType(o1[0], "5")), "C15: Stop() does not transmit exactly one Logout")
		zz.Assert(!cancelled(), "C15: Stop() cancelled the session before the answer or the deadline")
		if zz.Symbolic() {
			zz.Assert(zz.AfterFuncs() == n0+1, "C15: Stop() does not arm exactly one deadline timer")
			zz.Assert(zz.AfterFuncDelay(n0) == int64(ct), "C15: the deadline timer is not armed with the configured close timeout")
		}
		if sc == 2 {
			out := f.serve(peerLogout(2))
			zz.Reach("served")
			zz.Assert(len(out) == 0, "C15: a second Logout is sent when the peer's answer arrives")
			zz.Assert(cancelled(), "C15: the session context is not cancelled when the peer's Logout answer arrives")

		} else {
			zz.AfterFuncFire(n0)
			zz.Reach("fired")
			zz.Assert(cancelled(), "C15: the session context is not cancelled when the close timeout elapses")

		}
	}
}

// ---- C19 ----

type logEntry struct {
	id    int
	bytes []byte
}

type faultyStore struct {
	*memory.Storage
	saves  int
	failAt int
	log    *[]logEntry
	seqs   []int
}

func (s *faultyStore) Save(id fix.StorageID, msg simplefixgo.SendingMessage, seq int) error {
	s.saves++
	s.seqs = append(s.seqs, seq)
	b, _ := msg.ToBytes()
	*s.log = append(*s.log, logEntry{-1, append([]byte{}, b...)})
	if s.saves == s.failAt {
		return errors.New("store failure")
	}
	return s.Storage.Save(id, msg, seq)
}

// H_C19_send: outgoing handler order, veto, store-before-send.
// params: [nAll, nType, order (interleaving selector), failAt (0 never), msgKind (0 heartbeat 1 testrequest), sends]
func H_C19_send() {
	nAll, nType := zz.Param(0), zz.Param(1)
	var log []logEntry
	fs := &faultyStore{Storage: memory.NewStorage(), failAt: zz.Param(3), log: &log}
	h := simplefixgo.NewAcceptorHandler(contextBG(), "35", 64)
	s, err := NewAcceptorSession(verifOpts("0"), h, &LogonSettings{LogonTimeout: time.Second, HeartBtLimits: &IntLimits{Min: 1, Max: 60}},
		func(*LogonSettings) error { return nil }, fs.Storage, fs)
	zz.Assume(err == nil)
	_ = s.Run()
	mt := "0"
	if zz.Param(4) == 1 {
		mt = "1"
	}
	// register handlers in an interleaved order; each refuses iff its own symbolic bool says so
	refuse := make([]bool, nAll+nType)
	var expectOrderAll, expectOrderType []int
	ai, ti := 0, 0
	removed, removedID := -1, int64(0)
	order := zz.Param(2)
	for ai < nAll || ti < nType {
		pickAll := ai < nAll && (ti >= nType || order&1 == 0)
		order >>= 1
		id := ai + ti
		refuse[id] = zz.Bool()
		cb := func(id int) simplefixgo.OutgoingHandlerFunc {
			return func(msg simplefixgo.SendingMessage) bool {
				if zz.Param(6) == 1 && id == 0 {
					// the documented use of outgoing handlers: modify the message before it is sent
					switch m := msg.(type) {
					case *fixgen.Heartbeat:
						m.SetTestReqID("changed-by-handler")
					case *fixgen.TestRequest:
						m.SetTestReqID("changed-by-handler")
					}
				}
				b, _ := msg.ToBytes()
				log = append(log, logEntry{id, append([]byte{}, b...)})
				return !refuse[id]
			}
		}(id)
		if pickAll {
			rid := h.HandleOutgoing(simplefixgo.AllMsgTypes, cb)
			if removed < 0 && zz.Param(7) == 1 {
				removed, removedID = id, rid
				zz.Assume(!refuse[id])
			}
			expectOrderAll = append(expectOrderAll, id)
			ai++
		} else {
			h.HandleOutgoing(mt, cb)
			expectOrderType = append(expectOrderType, id)
			// a handler for another type must never see the message
			other := "5"
			h.HandleOutgoing(other, func(simplefixgo.SendingMessage) bool {
				log = append(log, logEntry{1000, nil})
				return true
			})
			ti++
		}
	}
	if removed >= 0 {
		// the application takes its first all-types handler out again, with the identifier it was
		// given; whether the pool honours that is not C19's subject (its calls are filtered out
		// below), but the store hook and the other handlers must be unaffected
		_ = h.RemoveOutgoingHandler(simplefixgo.AllMsgTypes, removedID)
		keep := expectOrderAll[:0]
		for _, id := range expectOrderAll {
			if id != removed {
				keep = append(keep, id)
			}
		}
		expectOrderAll = keep
	}
	for n := 0; n < zz.Param(5); n++ {
		log = log[:0]
		var m messages.Message
		if mt == "0" {
			m = fixgen.CreateHeartbeat().SetTestReqID(string(zz.Bytes(2)))
		} else {
			m = fixgen.CreateTestRequest(string(zz.Bytes(2)))
		}
		before := fs.saves
		errSend := s.Send(m)
		out := h.VerifOut()
		zz.Reach("sent")
		if removed >= 0 {
			kept := log[:0]
			for _, e := range log {
				if e.id != removed {
					kept = append(kept, e)
				}
			}
			log = kept
		}
		// expected call sequence: store hook (registered first, in the constructor), then all-types
		// handlers in registration order, then type handlers; stop at the first refusal
		var want []int
		vetoed := false
		want = append(want, -1)
		if fs.saves == fs.failAt && fs.saves > before {
			vetoed = true
		}
		if !vetoed {
			for _, id := range expectOrderAll {
				want = append(want, id)
				if refuse[id] {
					vetoed = true
					break
				}
			}
		}
		if !vetoed {
			for _, id := range expectOrderType {
				want = append(want, id)
				if refuse[id] {
					vetoed = true
					break
				}
			}
		}
		zz.Assert(len(log) == len(want), "C19: the number of store/handler calls differs from registration order with early exit")
		for i := range want {
			zz.Assert(log[i].id == want[i], "C19: store/handlers are not called in the order: store, all-types handlers, type handlers")
		}
		if vetoed {
			zz.Assert(errSend != nil, "C19: Send returns nil although the store failed or a handler refused")
			zz.Assert(len(out) == 0, "C19: a refused or unsaved message is transmitted")
		} else {
			zz.Assert(errSend == nil, "C19: Send fails although nothing refused")
			zz.Assert(len(out) == 1, "C19: an accepted message is not transmitted exactly once")
			v34, _ := fieldOf(out[0], "34")
			zz.Assert(fs.seqs[len(fs.seqs)-1] == atoi(v34), "C19: the message was saved under a sequence number different from its own")
			mutAt := 0
			if zz.Param(6) == 1 {
				for i := range log {
					if log[i].id == 0 {
						mutAt = i
					}
				}
			}
			for i := range log {
				if i < mutAt {
					continue // called before the modifying handler: saw the message as it was then
				}
				zz.Assert(len(log[i].bytes) == len(out[0]), "C19: a handler saw a message of different length than the one transmitted")
				zz.Assert(zz.EqBytes(log[i].bytes, out[0]), "C19: a handler or the store saw the message differently from what is transmitted")
			}
			final, _ := m.ToBytes()
			zz.Assert(zz.And(len(final) == len(out[0]), zz.EqBytes(final, out[0])), "C19: the transmitted bytes are not the message as the handlers left it")
		}
	}
}

// H_C19_inbound: inbound dispatch order: all-types handlers in registration order, then handlers
// of the message's own type; never another type's. params: [nAll, nType, order, msgKind]
func H_C19_inbound() {
	nAll, nType := zz.Param(0), zz.Param(1)
	h := simplefixgo.NewAcceptorHandler(contextBG(), "35", 64)
	var calls []int
	stop := make([]bool, nAll+nType)
	var wantAll, wantType []int
	b, _ := mkInbound(zz.Param(3), "CLI", "SRV", seqOfClass(1))
	mt := typeOf(b)
	ai, ti := 0, 0
	order := zz.Param(2)
	for ai < nAll || ti < nType {
		pickAll := ai < nAll && (ti >= nType || order&1 == 0)
		order >>= 1
		id := ai + ti
		stop[id] = zz.Bool()
		cb := func(id int) simplefixgo.IncomingHandlerFunc {
			return func(data []byte) bool {
				calls = append(calls, id)
				zz.Assert(zz.EqBytes(data, b), "C19: an incoming handler sees bytes different from the received message")
				return !stop[id]
			}
		}(id)
		if pickAll {
			h.HandleIncoming(simplefixgo.AllMsgTypes, cb)
			wantAll = append(wantAll, id)
			ai++
		} else {
			h.HandleIncoming(mt, cb)
			h.HandleIncoming(mt+"X", func([]byte) bool { calls = append(calls, 1000); return true })
			wantType = append(wantType, id)
			ti++
		}
	}
	_ = h.VerifServe(b)
	zz.Reach("served")
	var want []int
	for _, id := range wantAll {
		want = append(want, id)
		if stop[id] {
			break
		}
	}
	for _, id := range wantType {
		want = append(want, id)
		if stop[id] {
			break
		}
	}
	zz.Assert(len(calls) == len(want), "C19: inbound handlers called a different number of times than registration order with early exit per pool")
	for i := range want {
		zz.Assert(calls[i] == want[i], "C19: inbound handlers are not called all-types first, then own type, in registration order")
	}
}

// H_C19_events: EventHandlerPool.Trigger runs handlers in registration order and stops at the first false.
// params: [n]
func H_C19_events() {
	n := zz.Param(0)
	p := utils.NewEventHandlerPool()
	var calls []int
	stop := make([]bool, n)
	for i := 0; i < n; i++ {
		id := i
		stop[id] = zz.Bool()
		p.Handle(utils.EventLogon, func() bool { calls = append(calls, id); return !stop[id] })
		p.Handle(utils.EventLogout, func() bool { calls = append(calls, 1000); return true })
	}
	p.Trigger(utils.EventLogon)
	zz.Reach("triggered")
	var want []int
	for i := 0; i < n; i++ {
		want = append(want, i)
		if stop[i] {
			break
		}
	}
	zz.Assert(len(calls) == len(want), "C19: event handlers are not called in registration order with early exit")
	for i := range want {
		zz.Assert(calls[i] == want[i], "C19: event handlers are not called in registration order")
	}
}

// H_C19_late: handlers registered after traffic of their type has already passed are honoured from
// then on. dir 0: outgoing (send, register a type handler and an all-types handler, send again);
// dir 1: inbound (serve, register, serve again). params: [dir, second registration too]
func H_C19_late() {
	dir := zz.Param(0)
	zz.Class("late/dir=" + strconv.Itoa(dir) + "/two=" + strconv.Itoa(zz.Param(1)))
	st := memory.NewStorage()
	h := simplefixgo.NewAcceptorHandler(contextBG(), "35", 64)
	s, err := NewAcceptorSession(verifOpts("0"), h, &LogonSettings{LogonTimeout: time.Second, HeartBtLimits: &IntLimits{Min: 1, Max: 60}},
		func(*LogonSettings) error { return nil }, st, st)
	zz.Assume(err == nil)
	_ = s.Run()
	var calls []int
	refuse := zz.Bool()
	if dir == 0 {
		zz.Assert(s.Send(fixgen.CreateTestRequest("a")) == nil, "fixture: first Send failed")
		zz.Assert(len(h.VerifOut()) == 1, "fixture: first message not transmitted")
		h.HandleOutgoing("1", func(simplefixgo.SendingMessage) bool { calls = append(calls, 1); return !refuse })
		if zz.Param(1) == 1 {
			h.HandleOutgoing("1", func(simplefixgo.SendingMessage) bool { calls = append(calls, 2); return true })
		}
		errSend := s.Send(fixgen.CreateTestRequest("b"))
		out := h.VerifOut()
		zz.Reach("sent")
		zz.Assert(len(calls) >= 1 && calls[0] == 1, "C19: an outgoing handler registered after a message of its type had passed is not run")
		if refuse {
			zz.Assert(errSend != nil && len(out) == 0, "C19: the refusal of a late-registered outgoing handler does not stop the message")
		} else {
			zz.Assert(errSend == nil && len(out) == 1, "C19: an accepted message is not transmitted exactly once")
			if zz.Param(1) == 1 {
				zz.Assert(len(calls) == 2 && calls[1] == 2, "C19: the second late-registered handler is not run after the first")
			}
		}
		return
	}
	// inbound: an application message type nobody handles yet
	m1, _ := mkInbound(mApp, "CLI", "SRV", 1)
	_ = h.VerifServe(m1)
	h.HandleIncoming("D", func([]byte) bool { calls = append(calls, 1); return !refuse })
	if zz.Param(1) == 1 {
		h.HandleIncoming("D", func([]byte) bool { calls = append(calls, 2); return true })
	}
	m2, _ := mkInbound(mApp, "CLI", "SRV", 2)
	_ = h.VerifServe(m2)
	zz.Reach("served")
	zz.Assert(len(calls) >= 1 && calls[0] == 1, "C19: an incoming handler registered after a message of its type had passed is not offered the next one")
	if zz.Param(1) == 1 {
		if refuse {
			zz.Assert(len(calls) == 1, "C19: handlers after a refusing incoming handler are still called")
		} else {
			zz.Assert(len(calls) == 2 && calls[1] == 2, "C19: the second late-registered incoming handler is not run after the first")
		}
	}
}

// H_C19_replay: retransmissions leave through the session like first transmissions - every
// replayed message is offered to the outgoing handlers (all-types first) and a refusal stops it.
// params: [role, refuseAt (0: none, k: the handler refuses the k-th replayed message)]
func H_C19_replay() {
	role := zz.Param(0)
	zz.Class("replay/role=" + strconv.Itoa(role) + "/refuseAt=" + strconv.Itoa(zz.Param(1)))
	f := loggedOn(role, memory.NewStorage())
	zz.Assume(f.s.IsLogged())
	_ = f.h.VerifOut()
	peer, me := "CLI", "SRV"
	if role == 1 {
		peer, me = "SRV", "CLI"
	}
	_ = f.s.Send(fixgen.CreateTestRequest(string(zz.Bytes(2))))
	_ = f.s.Send(fixgen.CreateHeartbeat())
	first := f.h.VerifOut()
	zz.Assume(len(first) == 2)
	last, _ := f.st.GetCurrSeqNum(fix.StorageID{Side: fix.Outgoing})
	var seen [][]byte
	n := 0
	f.h.HandleOutgoing(simplefixgo.AllMsgTypes, func(m simplefixgo.SendingMessage) bool {
		b, _ := m.ToBytes()
		seen = append(seen, append([]byte{}, b...))
		n++
		return n != zz.Param(1)
	})
	rr := fixgen.CreateResendRequest(1, 0)
	setHdr(rr.Header(), peer, me, 2)
	out := f.serve(wire(rr))
	zz.Reach("served")
	want := last
	if zz.Param(1) > 0 && zz.Param(1) <= last {
		want = zz.Param(1) - 1 // the refused message and, the batch being abandoned, the rest stay off the wire
	}
	zz.Assert(len(seen) >= len(out), "C19: a retransmitted message left without being offered to the outgoing handlers")
	zz.Assert(len(out) == want, "C19: the refusal of an outgoing handler does not stop a retransmission (or too few are sent)")
	for i := range out {
		zz.Assert(zz.EqBytes(out[i], seen[i]), "C19: an outgoing handler saw a retransmission differently from what is transmitted")
	}
}
