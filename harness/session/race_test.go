package session

// Race-detector scenario for C20 (native only; built with -race by the C20 check).

import (
	"context"
	"net"
	"os"
	"sync"
	"sync/atomic"
	"testing"
	"time"

	simplefixgo "github.com/b2broker/simplefix-go"
	"github.com/b2broker/simplefix-go/storages/memory"
	fixgen "github.com/b2broker/simplefix-go/tests/fix44"
	"github.com/b2broker/simplefix-go/utils"
)

func TestVerifRace(t *testing.T) {
	side := 0
	if os.Getenv("VERIF_SIDE") == "1" {
		side = 1
	}
	st := memory.NewStorage()
	var f *fx
	peer, me := "CLI", "SRV"
	if side == 0 {
		f = newAcceptor(st, 1, 60, 50*time.Millisecond, "0")
		f.logon("CLI", "SRV", 1, 1) // heartbeat interval 1s: both timers really expire
	} else {
		f = newInitiator(st, 1, "0", "user", "pw", 50*time.Millisecond)
		peer, me = "SRV", "CLI"
		lg := fixgen.CreateLogon("0", 1)
		setHdr(lg.Header(), "SRV", "CLI", 1)
		_ = f.serve(wire(lg))
	}
	if !f.s.IsLogged() {
		t.Fatal("fixture: not logged on")
	}
	var stop int32
	var wg sync.WaitGroup
	done := make(chan struct{})
	// the connection's writer loop
	wg.Add(1)
	go func() {
		defer wg.Done()
		for {
			select {
			case <-f.h.Outgoing():
			case <-done:
				return
			}
		}
	}()
	// application senders
	for i := 0; i < 3; i++ {
		wg.Add(1)
		go func() {
			defer wg.Done()
			for atomic.LoadInt32(&stop) == 0 {
				_ = f.s.Send(fixgen.CreateHeartbeat())
				time.Sleep(3 * time.Millisecond)
			}
		}()
	}
	// state queries and event registration
	wg.Add(1)
	go func() {
		defer wg.Done()
		for atomic.LoadInt32(&stop) == 0 {
			_ = f.s.IsLogged()
			time.Sleep(time.Millisecond)
		}
	}()
	wg.Add(1)
	go func() {
		defer wg.Done()
		for i := 0; atomic.LoadInt32(&stop) == 0 && i < 50; i++ {
			f.s.OnChangeState(utils.EventRequest, func() bool { return true })
			time.Sleep(20 * time.Millisecond)
		}
	}()
	// inbound dispatch: one goroutine, sequential, as DefaultHandler.Run does
	wg.Add(1)
	go func() {
		defer wg.Done()
		seq := 2
		serve := func(m wireMsg, h *fixgen.Header) {
			setHdr(h, peer, me, seq)
			seq++
			_ = f.h.VerifServe(wire(m))
		}
		phase := func(d time.Duration) {
			end := time.Now().Add(d)
			for time.Now().Before(end) && atomic.LoadInt32(&stop) == 0 {
				tr := fixgen.CreateTestRequest("id")
				serve(tr, tr.Header())
				rr := fixgen.CreateResendRequest(1, 2)
				serve(rr, rr.Header())
				rr0 := fixgen.CreateResendRequest(1, 0)
				serve(rr0, rr0.Header())
				hb := fixgen.CreateHeartbeat().SetTestReqID("1")
				serve(hb, hb.Header())
				time.Sleep(5 * time.Millisecond)
			}
		}
		phase(500 * time.Millisecond)
		// silence long enough for the silence timer (2s) to expire: TestRequest, waiting state
		time.Sleep(2300 * time.Millisecond)
		phase(100 * time.Millisecond) // the last message of a phase is a Heartbeat carrying a TestReqID
		time.Sleep(2300 * time.Millisecond) // second expiry after an answered probe
		phase(100 * time.Millisecond)
	}()
	time.Sleep(5700 * time.Millisecond)
	_ = f.s.Stop()
	lo := fixgen.CreateLogout()
	setHdr(lo.Header(), peer, me, 9999)
	time.Sleep(20 * time.Millisecond)
	atomic.StoreInt32(&stop, 1)
	time.Sleep(100 * time.Millisecond)
	close(done)
	wg.Wait()
}

// TestVerifRaceState: the inbound dispatch goroutine (which reads the session state in its
// handlers) against the state changes the timer goroutines make (changeState is what they call).
func TestVerifRaceState(t *testing.T) {
	st := memory.NewStorage()
	f := newAcceptor(st, 1, 60, 50*time.Millisecond, "0")
	f.logon("CLI", "SRV", 1, 30)
	var stop int32
	var wg sync.WaitGroup
	wg.Add(3)
	go func() {
		defer wg.Done()
		for atomic.LoadInt32(&stop) == 0 {
			<-f.h.Outgoing()
		}
	}()
	go func() { // timer goroutine role: probe state set / reset
		defer wg.Done()
		for atomic.LoadInt32(&stop) == 0 {
			f.s.changeState(WaitingTestReqAnswer, false)
			f.s.changeState(SuccessfulLogged, false)
		}
	}()
	go func() { // inbound dispatch role
		defer wg.Done()
		seq := 2
		for atomic.LoadInt32(&stop) == 0 {
			hb := fixgen.CreateHeartbeat()
			setHdr(hb.Header(), "CLI", "SRV", seq)
			seq++
			_ = f.h.VerifServe(wire(hb))
		}
	}()
	time.Sleep(400 * time.Millisecond)
	atomic.StoreInt32(&stop, 1)
	_ = f.s.Send(fixgen.CreateHeartbeat()) // unblock the drain loop
	wg.Wait()
}

// TestVerifRaceTimers: no application traffic, so the heartbeat timer (N = 1 s) really expires; the
// peer then asks for a retransmission of everything sent so far (the timer-produced messages
// included) and the timer expires again afterwards. Inbound keep-alives stop before the request so
// that nothing else orders the inbound dispatch goroutine and the timer goroutine.
func TestVerifRaceTimers(t *testing.T) {
	side := 0
	if os.Getenv("VERIF_SIDE") == "1" {
		side = 1
	}
	st := memory.NewStorage()
	var f *fx
	peer, me := "CLI", "SRV"
	if side == 0 {
		f = newAcceptor(st, 1, 60, 50*time.Millisecond, "0")
		f.logon("CLI", "SRV", 1, 1)
	} else {
		f = newInitiator(st, 1, "0", "user", "pw", 50*time.Millisecond)
		peer, me = "SRV", "CLI"
		lg := fixgen.CreateLogon("0", 1)
		setHdr(lg.Header(), "SRV", "CLI", 1)
		_ = f.serve(wire(lg))
	}
	if !f.s.IsLogged() {
		t.Fatal("fixture: not logged on")
	}
	var heartbeats, total int32
	done := make(chan struct{})
	var wg sync.WaitGroup
	wg.Add(1)
	go func() {
		defer wg.Done()
		for {
			select {
			case m := <-f.h.Outgoing():
				atomic.AddInt32(&total, 1)
				if typeOf(m) == "0" {
					atomic.AddInt32(&heartbeats, 1)
				}
			case <-done:
				return
			}
		}
	}()
	seq := 2
	wait := func(cond func() bool, keepAlive bool) {
		end := time.Now().Add(6 * time.Second)
		for !cond() && time.Now().Before(end) {
			if keepAlive {
				hb := fixgen.CreateHeartbeat()
				setHdr(hb.Header(), peer, me, seq)
				seq++
				_ = f.h.VerifServe(wire(hb))
			}
			time.Sleep(100 * time.Millisecond)
		}
	}
	wait(func() bool { return atomic.LoadInt32(&heartbeats) >= 2 }, true)
	before := atomic.LoadInt32(&total)
	rr := fixgen.CreateResendRequest(1, 0)
	setHdr(rr.Header(), peer, me, seq)
	seq++
	_ = f.h.VerifServe(wire(rr))
	hbBefore := atomic.LoadInt32(&heartbeats)
	wait(func() bool { return atomic.LoadInt32(&total) > before }, false)
	// the timers expire again (heartbeat after 1 s, TestRequest after 2 s of inbound silence)
	wait(func() bool { return atomic.LoadInt32(&heartbeats) >= hbBefore+3 }, false)
	rr2 := fixgen.CreateResendRequest(1, 0)
	setHdr(rr2.Header(), peer, me, seq)
	_ = f.h.VerifServe(wire(rr2))
	time.Sleep(1200 * time.Millisecond)
	close(done)
	wg.Wait()
}

// TestVerifRaceEvents: an event is being delivered (a slow application handler of the logout event
// is running on the inbound dispatch goroutine) while the application registers further handlers
// and stops the session.
func TestVerifRaceEvents(t *testing.T) {
	st := memory.NewStorage()
	f := newAcceptor(st, 1, 60, 50*time.Millisecond, "0")
	f.logon("CLI", "SRV", 1, 30)
	if !f.s.IsLogged() {
		t.Fatal("fixture: not logged on")
	}
	f.s.OnChangeState(utils.EventLogout, func() bool {
		time.Sleep(600 * time.Millisecond)
		return true
	})
	f.s.OnChangeState(utils.EventLogout, func() bool { return true })
	done := make(chan struct{})
	var wg sync.WaitGroup
	wg.Add(2)
	go func() {
		defer wg.Done()
		for {
			select {
			case <-f.h.Outgoing():
			case <-done:
				return
			}
		}
	}()
	_ = f.s.Logout()
	go func() { // inbound dispatch: the peer's Logout answer triggers the logout event
		defer wg.Done()
		lo := fixgen.CreateLogout()
		setHdr(lo.Header(), "CLI", "SRV", 2)
		_ = f.h.VerifServe(wire(lo))
	}()
	time.Sleep(200 * time.Millisecond) // the slow handler is running now
	f.s.OnChangeState(utils.EventLogout, func() bool { return true })
	_ = f.s.Stop()
	f.s.OnChangeState(utils.EventLogout, func() bool { return true })
	f.s.OnChangeState(utils.EventDisconnect, func() bool { return true })
	time.Sleep(700 * time.Millisecond)
	close(done)
	wg.Wait()
}

// TestVerifRaceConn: the whole stack over a loopback socket - Acceptor.ListenAndServe with a
// session per connection, Initiator.Serve with its session, 1-second timers, application senders
// on both sides, resend requests in both directions, state queries, then Close on both sides
// while senders are still running.
func TestVerifRaceConn(t *testing.T) {
	ln, err := net.Listen("tcp", "localhost:0")
	if err != nil {
		t.Skip("no loopback listener: " + err.Error())
	}
	var mu sync.Mutex
	var accSessions []*Session
	st := memory.NewStorage()
	acc := simplefixgo.NewAcceptor(ln, simplefixgo.NewAcceptorHandlerFactory("35", 4), 5*time.Second, func(h simplefixgo.AcceptorHandler) {
		s, err := NewAcceptorSession(verifOpts("0"), h,
			&LogonSettings{LogonTimeout: 5 * time.Second, CloseTimeout: 50 * time.Millisecond, HeartBtLimits: &IntLimits{Min: 1, Max: 60}},
			func(*LogonSettings) error { return nil }, st, st)
		if err != nil {
			panic(err)
		}
		if err := s.Run(); err != nil {
			panic(err)
		}
		mu.Lock()
		accSessions = append(accSessions, s)
		mu.Unlock()
	})
	accDone := make(chan struct{})
	go func() { defer close(accDone); _ = acc.ListenAndServe() }()

	c, err := net.Dial("tcp", ln.Addr().String())
	if err != nil {
		t.Fatal(err)
	}
	ih := simplefixgo.NewInitiatorHandler(context.Background(), "35", 4)
	ini := simplefixgo.NewInitiator(c, ih, 4, 5*time.Second)
	ist := memory.NewStorage()
	is, err := NewInitiatorSession(ih, verifOpts("0"),
		&LogonSettings{TargetCompID: "SRV", SenderCompID: "CLI", HeartBtInt: 1, EncryptMethod: "0", Username: "u", Password: "p",
			LogonTimeout: 5 * time.Second, CloseTimeout: 50 * time.Millisecond}, ist, ist)
	if err != nil {
		t.Fatal(err)
	}
	if err := is.Run(); err != nil {
		t.Fatal(err)
	}
	iniDone := make(chan struct{})
	go func() { defer close(iniDone); _ = ini.Serve() }()
	accSess := func() *Session {
		mu.Lock()
		defer mu.Unlock()
		if len(accSessions) == 0 {
			return nil
		}
		return accSessions[0]
	}
	deadline := time.Now().Add(10 * time.Second)
	for !(is.IsLogged() && accSess() != nil && accSess().IsLogged()) {
		if time.Now().After(deadline) {
			t.Fatal("fixture: the two sessions did not log on")
		}
		time.Sleep(5 * time.Millisecond)
	}
	as := accSess()
	var stop int32
	var wg sync.WaitGroup
	for _, s := range []*Session{is, as} {
		s := s
		for i := 0; i < 3; i++ {
			wg.Add(1)
			go func() {
				defer wg.Done()
				for atomic.LoadInt32(&stop) == 0 {
					_ = s.Send(fixgen.CreateTestRequest("x"))
					_ = s.IsLogged()
					time.Sleep(2 * time.Millisecond)
				}
			}()
		}
		wg.Add(1)
		go func() {
			defer wg.Done()
			for i := 0; i < 5 && atomic.LoadInt32(&stop) == 0; i++ {
				_ = s.Send(fixgen.CreateResendRequest(1, 0))
				s.OnChangeState(utils.EventRequest, func() bool { return true })
				time.Sleep(100 * time.Millisecond)
			}
		}()
	}
	time.Sleep(700 * time.Millisecond)
	atomic.StoreInt32(&stop, 1)
	wg.Wait()
	// silence: both heartbeat timers expire for real
	time.Sleep(1300 * time.Millisecond)
	_ = is.Send(fixgen.CreateResendRequest(1, 0))
	time.Sleep(1200 * time.Millisecond)
	// teardown with senders still running
	atomic.StoreInt32(&stop, 0)
	for _, s := range []*Session{is, as} {
		s := s
		wg.Add(1)
		go func() {
			defer wg.Done()
			for i := 0; i < 200 && atomic.LoadInt32(&stop) == 0; i++ {
				_ = s.Send(fixgen.CreateHeartbeat())
				time.Sleep(time.Millisecond)
			}
		}()
	}
	time.Sleep(50 * time.Millisecond)
	ini.Close()
	time.Sleep(100 * time.Millisecond)
	acc.Close()
	atomic.StoreInt32(&stop, 1)
	select {
	case <-iniDone:
	case <-time.After(5 * time.Second):
	}
	select {
	case <-accDone:
	case <-time.After(5 * time.Second):
	}
	wg.Wait()
}

// TestVerifRaceRelogon: application senders and state queries keep running while the peer logs out
// and logs on again over the same connection (the Logon handler installs the negotiated settings
// and starts a new pair of timers), several times.
func TestVerifRaceRelogon(t *testing.T) {
	st := memory.NewStorage()
	f := newAcceptor(st, 1, 60, 50*time.Millisecond, "0")
	f.logon("CLI", "SRV", 1, 1)
	if !f.s.IsLogged() {
		t.Fatal("fixture: not logged on")
	}
	var stop int32
	var wg sync.WaitGroup
	done := make(chan struct{})
	wg.Add(1)
	go func() {
		defer wg.Done()
		for {
			select {
			case <-f.h.Outgoing():
			case <-done:
				return
			}
		}
	}()
	for i := 0; i < 2; i++ {
		wg.Add(1)
		go func() {
			defer wg.Done()
			for atomic.LoadInt32(&stop) == 0 {
				_ = f.s.Send(fixgen.CreateHeartbeat())
				_ = f.s.IsLogged()
				time.Sleep(time.Millisecond)
			}
		}()
	}
	seq := 2
	for round := 0; round < 4; round++ {
		lo := fixgen.CreateLogout()
		setHdr(lo.Header(), "CLI", "SRV", seq)
		seq++
		_ = f.h.VerifServe(wire(lo))
		time.Sleep(30 * time.Millisecond)
		lg := fixgen.CreateLogon("0", 1+round%2)
		setHdr(lg.Header(), "CLI", "SRV", seq)
		seq++
		_ = f.h.VerifServe(wire(lg))
		time.Sleep(300 * time.Millisecond)
	}
	time.Sleep(1200 * time.Millisecond) // the timers of the last logon expire
	atomic.StoreInt32(&stop, 1)
	time.Sleep(50 * time.Millisecond)
	close(done)
	wg.Wait()
}

// TestVerifRaceStopEarly: an application that stops the session the moment it reports itself logged
// on - Stop overlaps the rest of the Logon processing (timers being started, logon event handlers).
func TestVerifRaceStopEarly(t *testing.T) {
	for round := 0; round < 4; round++ {
		st := memory.NewStorage()
		role := round % 2
		var f *fx
		peer, me := "CLI", "SRV"
		if role == 0 {
			f = newAcceptor(st, 1, 60, 50*time.Millisecond, "0")
		} else {
			f = newInitiator(st, 1, "0", "user", "pw", 50*time.Millisecond)
			peer, me = "SRV", "CLI"
		}
		done := make(chan struct{})
		var wg sync.WaitGroup
		wg.Add(2)
		go func() {
			defer wg.Done()
			for {
				select {
				case <-f.h.Outgoing():
				case <-done:
					return
				}
			}
		}()
		go func() {
			defer wg.Done()
			end := time.Now().Add(3 * time.Second)
			for !f.s.IsLogged() && time.Now().Before(end) {
			}
			_ = f.s.Stop()
		}()
		lg := fixgen.CreateLogon("0", 1)
		setHdr(lg.Header(), peer, me, 1)
		_ = f.h.VerifServe(wire(lg))
		lo := fixgen.CreateLogout()
		setHdr(lo.Header(), peer, me, 2)
		time.Sleep(20 * time.Millisecond)
		_ = f.h.VerifServe(wire(lo))
		time.Sleep(150 * time.Millisecond)
		close(done)
		wg.Wait()
	}
}
