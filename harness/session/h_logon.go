package session

import (
	"strconv"

	"github.com/b2broker/simplefix-go/storages/memory"
	fixgen "github.com/b2broker/simplefix-go/tests/fix44"
	"github.com/b2broker/simplefix-go/utils"
	zz "github.com/b2broker/simplefix-go/zzverif"
)

// symLogon builds a Logon with symbolic method (1 byte), heartbeat interval (2 digits), optional
// credentials and reset flag. creds: 0 none, 1 username "u1" + symbolic password, 2 symbolic both.
func symLogon(peer, me string, seq int, creds int, withReset bool) (*fixgen.Logon, []byte, int) {
	method := zz.Bytes(1)
	hb := zz.IntIn(10, 99)
	lg := fixgen.CreateLogon(string(method), hb)
	switch creds {
	case 1:
		lg.SetUsername("u1").SetPassword(string(zz.Bytes(2)))
	case 2:
		lg.SetUsername(string(zz.Bytes(2))).SetPassword(string(zz.Bytes(2)))
	}
	if withReset {
		lg.SetResetSeqNumFlag(zz.Bool())
	}
	setHdr(lg.Header(), peer, me, seq)
	return lg, method, hb
}

// H_C06_acceptor: one or two Logon steps on an accepting session.
// params: [min, max, allowedSet (0:{"0"} 1:{"0","1"}), damage, seqClass, firstStep (0 none, 1..4 refused variants, 5 accepted), creds, approveMode (0 symbolic bool, 1 only username u1)]
func H_C06_acceptor() {
	min, max := zz.Param(0), zz.Param(1)
	allowed := []string{"0"}
	if zz.Param(2) == 1 {
		allowed = []string{"0", "1"}
	}
	dmg := zz.Param(3)
	first := zz.Param(5)
	zz.Class("dmg=" + strconv.Itoa(dmg) + "/first=" + strconv.Itoa(first) + "/creds=" + strconv.Itoa(zz.Param(6)))
	f := newAcceptor(memory.NewStorage(), min, max, 0, allowed...)
	approveAll := true
	f.approve = func(r *LogonSettings) error {
		if zz.Param(7) == 1 {
			if r.Username == "u1" {
				return nil
			}
			return errRefused
		}
		if approveAll {
			return nil
		}
		return errRefused
	}
	inAllowed := func(m []byte) bool {
		ok := m[0] == '0'
		if zz.Param(2) == 1 {
			ok = zz.Or(ok, m[0] == '1')
		}
		return ok
	}
	// ---- optional first step ----
	wasLogged := false
	prevHB := 0
	if first != 0 {
		lg1, m1, hb1 := symLogon("CLI", "SRV", 1, 1, false)
		switch first {
		case 1:
			zz.Assume(!inAllowed(m1))
		case 2:
			zz.Assume(zz.And(inAllowed(m1), hb1 > max))
		case 3:
			zz.Assume(zz.And(inAllowed(m1), zz.And(hb1 >= min, hb1 <= max)))
			approveAll = false
			if zz.Param(7) == 1 {
				lg1.SetUsername("zz")
			}
		case 4:
			// damaged
		case 5:
			zz.Assume(zz.And(inAllowed(m1), zz.And(hb1 >= min, hb1 <= max)))
		}
		b1 := wire(lg1)
		if first == 4 {
			b1 = applyDamage(b1, dmgChecksum, "")
		}
		out1 := f.serve(b1)
		if first == 5 {
			zz.Assert(f.s.IsLogged(), "C06: acceptable Logon did not log the session on")
			wasLogged = true
			prevHB = hb1
		} else {
			zz.Assert(!f.s.IsLogged(), "C06: refused Logon logged the session on")
			zz.Assert(zz.And(len(out1) == 1, isType(out1[0], "3")), "C06: refused Logon is not answered by exactly one Reject")
		}
		approveAll = true
	}
	// ---- the step under test ----
	if zz.Param(7) == 0 {
		approveAll = zz.Bool()
	}
	seq := seqOfClass(zz.Param(4))
	lg, method, hb := symLogon("CLI", "SRV", seq, zz.Param(6), true)
	b := wire(lg)
	seqVal, _ := fieldOf(b, "34")
	d := applyDamage(b, dmg, "108")
	for k := range f.events {
		delete(f.events, k)
	}
	spawned := zz.Spawned()
	out := f.serve(d)
	zz.Reach("served")
	approved := approveAll
	if zz.Param(7) == 1 {
		approved = zz.Param(6) == 1
	}
	paramsOK := zz.And(inAllowed(method), zz.And(hb >= min, hb <= max))
	if wasLogged {
		zz.Assert(f.s.IsLogged(), "C06: a further Logon while logged on disturbed the session")
		zz.Assert(zz.And(len(out) == 1, isType(out[0], "3")), "C06: a further Logon while logged on is not answered by exactly one Reject")
		zz.Assert(f.s.LogonSettings.HeartBtInt == prevHB, "C06: a further Logon while logged on changed the negotiated heartbeat interval")
		zz.Assert(zz.Spawned() == spawned, "C06: a further Logon while logged on started timers again")
		zz.Assert(f.events[utils.EventLogon] == 0, "C06: a further Logon while logged on raised the logon event")
		return
	}
	if dmg != dmgNone {
		zz.Assert(!f.s.IsLogged(), "C06: a damaged Logon logged the session on")
		zz.Assert(zz.And(len(out) == 1, isType(out[0], "3")), "C06: a damaged Logon is not answered by exactly one Reject")
		zz.Assert(rejectOK(out[0], seqVal, dmg != dmgSeqAlpha && dmg != dmgSeqMissing && dmg != dmgSeqEmpty && dmg != dmgSeqHuge), "C06: the Reject does not reference the Logon's sequence number")
		zz.Assert(zz.Spawned() == spawned, "C06: a damaged Logon started timers")
		return
	}
	accept := zz.And(paramsOK, approved)
	zz.Assert(f.s.IsLogged() == accept, "C06: logged-on status does not match (well-formed && method allowed && heartbeat within limits && approved)")
	if f.s.IsLogged() {
		zz.Assert(len(out) >= 1, "C06: accepted Logon is not answered")
		zz.Assert(isType(out[0], "A"), "C06: the first answer to an accepted Logon is not a Logon")
		v108, ok1 := fieldOf(out[0], "108")
		v98, ok2 := fieldOf(out[0], "98")
		want108, _ := fieldOf(b, "108")
		zz.Assert(zz.And(ok1, zz.EqBytes(v108, want108)), "C06: Logon answer does not echo the heartbeat interval")
		zz.Assert(zz.And(ok2, zz.EqBytes(v98, method)), "C06: Logon answer does not echo the encryption method")
		zz.Assert(f.events[utils.EventLogon] == 1, "C06: logon event not raised exactly once")
		for _, o := range out[1:] {
			zz.Assert(isType(o, "2"), "C06: something other than a ResendRequest follows the Logon answer")
		}
		zz.Assert(f.s.LogonSettings.HeartBtInt == hb, "C06: negotiated heartbeat interval differs from the Logon's")
	} else {
		zz.Assert(zz.And(len(out) == 1, isType(out[0], "3")), "C06: refused Logon is not answered by exactly one Reject")
		zz.Assert(rejectOK(out[0], seqVal, true), "C06: the Reject does not reference the Logon's sequence number")
		zz.Assert(zz.Spawned() == spawned, "C06: a refused Logon started timers")
		zz.Assert(f.events[utils.EventLogon] == 0, "C06: a refused Logon raised the logon event")
		// offending field named when there is one
		v371, has371 := fieldOf(out[0], "371")
		if !paramsOK {
			bad98 := !inAllowed(method)
			want := zz.IteInt(bad98, 98, 108)
			zz.Assert(zz.And(has371, atoi(v371) == want), "C06: the Reject does not name the offending field (98 / 108)")
		}
	}
}

// H_C06_initiator: first transmission is the configured Logon; logged on only after a Logon comes back.
// params: [hb, damage, seqClass, between (message kind sent before the answer, -1 none)]
func H_C06_initiator() {
	hb := zz.Param(0)
	user, pass := string(zz.Bytes(2)), string(zz.Bytes(2))
	method := string(zz.Bytes(1))
	f := newInitiator(memory.NewStorage(), hb, method, user, pass, 0)
	out := f.h.VerifOut()
	zz.Assert(len(out) == 1, "C06: initiator must transmit exactly one message when it starts")
	zz.Assert(isType(out[0], "A"), "C06: initiator's first message is not a Logon")
	v, _ := fieldOf(out[0], "108")
	zz.Assert(atoi(v) == hb, "C06: initiator Logon carries a wrong heartbeat interval")
	v, _ = fieldOf(out[0], "98")
	zz.Assert(zz.EqBytes(v, []byte(method)), "C06: initiator Logon carries a wrong encryption method")
	v, _ = fieldOf(out[0], "553")
	zz.Assert(zz.EqBytes(v, []byte(user)), "C06: initiator Logon carries a wrong username")
	v, _ = fieldOf(out[0], "554")
	zz.Assert(zz.EqBytes(v, []byte(pass)), "C06: initiator Logon carries a wrong password")
	v, _ = fieldOf(out[0], "34")
	zz.Assert(atoi(v) == 1, "C06: initiator Logon is not message number 1")
	zz.Assert(!f.s.IsLogged(), "C06: initiator is logged on before any Logon came back")
	if k := zz.Param(3); k >= 0 {
		b, _ := mkInbound(k, "SRV", "CLI", seqOfClass(zz.Param(2)))
		_ = f.serve(b)
		zz.Assert(!f.s.IsLogged(), "C06: initiator is logged on by a message that is not a Logon")
	}
	lg, _, _ := symLogon("SRV", "CLI", seqOfClass(zz.Param(2)), 0, false)
	d := applyDamage(wire(lg), zz.Param(1), "108")
	_ = f.serve(d)
	zz.Reach("answered")
	if zz.Param(1) == dmgNone {
		zz.Assert(f.s.IsLogged(), "C06: initiator is not logged on after the Logon answer")
		zz.Assert(f.events[utils.EventLogon] == 1, "C06: logon event not raised exactly once")
	} else {
		zz.Assert(!f.s.IsLogged(), "C06: a damaged Logon answer logged the initiator on")
	}
}

// H_C06_afterlogout: once a session has been logged out it is logged on again only through a new
// Logon, whatever happens in between. History: logon, then the logout exchange (ended by the peer:
// how=0, or locally with the peer's answer: how=1, or locally and never answered: how=2), then the
// silence timer expires (the session probes the peer), then one inbound message of any kind that
// is not a Logon. params: [role, how, inbound kind, damage]
func H_C06_afterlogout() {
	zz.TimerStub(true)
	role, how := zz.Param(0), zz.Param(1)
	zz.Class("how=" + strconv.Itoa(how) + "/kind=" + strconv.Itoa(zz.Param(2)) + "/role=" + strconv.Itoa(role))
	f := loggedOn(role, memory.NewStorage())
	zz.Assume(f.s.IsLogged())
	_ = f.h.VerifOut()
	zz.Yield()
	peer, me := "CLI", "SRV"
	if role == 1 {
		peer, me = "SRV", "CLI"
	}
	lo := fixgen.CreateLogout()
	setHdr(lo.Header(), peer, me, 2)
	switch how {
	case 0:
		_ = f.serve(wire(lo))
	case 1:
		_ = f.s.Logout()
		_ = f.serve(wire(lo))
	default:
		_ = f.s.Logout()
	}
	_ = f.h.VerifOut()
	zz.Assert(!f.s.IsLogged(), "C15: still logged on after the logout")
	for k := range f.events {
		delete(f.events, k)
	}
	// the peer stays silent for a whole period: the session probes it
	zz.FireTimer(0)
	zz.Yield()
	_ = f.h.VerifOut()
	zz.Assert(!f.s.IsLogged(), "C06: a silence-timer expiry logs a logged-out session on")
	kind := zz.Param(2)
	zz.Assume(kind != mLogon)
	b, numTag := mkInbound(kind, peer, me, 3)
	if (zz.Param(3) == dmgNumField || zz.Param(3) == dmgNumEmpty || zz.Param(3) == dmgNumHuge) && numTag == "" {
		zz.Assume(false)
	}
	if how == 2 && kind == mLogout && zz.Param(3) == dmgNone {
		zz.Assume(false) // that is the late answer: H_C15_logout scenario 5
	}
	_ = f.serve(applyDamage(b, zz.Param(3), numTag))
	zz.Reach("served")
	zz.Assert(!f.s.IsLogged(), "C06: a logged-out session reports itself logged on again without a new Logon")
	zz.Assert(f.events[utils.EventLogon] == 0, "C06: the logon event is raised without a new Logon")
}
