package session

// Session step fixture: a real DefaultHandler + Session built with the generated tests/fix44
// builders; inbound messages are dispatched with DefaultHandler.serve (what Run does per message)
// and everything the session transmits is read back from the handler's outbound queue.

import (
	"sync"
	"context"
	"errors"
	"strconv"
	"time"

	simplefixgo "github.com/b2broker/simplefix-go"
	"github.com/b2broker/simplefix-go/fix"
	"github.com/b2broker/simplefix-go/session/messages"
	"github.com/b2broker/simplefix-go/storages/memory"
	fixgen "github.com/b2broker/simplefix-go/tests/fix44"
	"github.com/b2broker/simplefix-go/utils"
	zz "github.com/b2broker/simplefix-go/zzverif"
)

func verifOpts(allowed ...string) *Opts {
	am := map[string]struct{}{}
	for _, a := range allowed {
		am[a] = struct{}{}
	}
	return &Opts{
		MessageBuilders: MessageBuilders{
			HeaderBuilder:        fixgen.Header{}.New(),
			TrailerBuilder:       fixgen.Trailer{}.New(),
			LogonBuilder:         fixgen.Logon{}.New(),
			LogoutBuilder:        fixgen.Logout{}.New(),
			RejectBuilder:        fixgen.Reject{}.New(),
			HeartbeatBuilder:     fixgen.Heartbeat{}.New(),
			TestRequestBuilder:   fixgen.TestRequest{}.New(),
			ResendRequestBuilder: fixgen.ResendRequest{}.New(),
		},
		Tags:                    &messages.Tags{MsgType: 35, MsgSeqNum: 34, HeartBtInt: 108, EncryptedMethod: 98},
		AllowedEncryptedMethods: am,
		SessionErrorCodes:       &messages.SessionErrorCodes{IncorrectValue: 5, Other: 99, RequiredTagMissing: 1},
	}
}

// fxBuf is the outbound buffer size of the handlers the fixtures create.
var fxBuf = 64

type fx struct {
	h      *simplefixgo.DefaultHandler
	s      *Session
	st     *memory.Storage
	events map[utils.Event]int
	evMu   sync.Mutex
	approve func(*LogonSettings) error
	logonCalls int
}

func (f *fx) watch() {
	f.events = map[utils.Event]int{}
	for _, ev := range []utils.Event{utils.EventDisconnect, utils.EventLogon, utils.EventRequest, utils.EventLogout} {
		e := ev
		f.s.OnChangeState(e, func() bool {
			// events may be delivered from several goroutines (inbound dispatch, timers, application)
			f.evMu.Lock()
			f.events[e]++
			f.evMu.Unlock()
			return true
		})
	}
}

// newAcceptor builds an accepting session on the given store and runs it.
func newAcceptor(st *memory.Storage, min, max int, closeTimeout time.Duration, allowed ...string) *fx {
	f := &fx{st: st}
	f.h = simplefixgo.NewAcceptorHandler(context.Background(), "35", fxBuf)
	s, err := NewAcceptorSession(verifOpts(allowed...), f.h,
		&LogonSettings{LogonTimeout: time.Second, CloseTimeout: closeTimeout, HeartBtLimits: &IntLimits{Min: min, Max: max}},
		func(r *LogonSettings) error {
			f.logonCalls++
			if f.approve != nil {
				return f.approve(r)
			}
			return nil
		}, st, st)
	if err != nil {
		panic("fixture: NewAcceptorSession: " + err.Error())
	}
	f.s = s
	f.watch()
	if err := s.Run(); err != nil {
		panic("fixture: Run")
	}
	return f
}

// newInitiator builds an initiating session and runs it (which sends the Logon).
func newInitiator(st *memory.Storage, hb int, method, user, pass string, closeTimeout time.Duration) *fx {
	f := &fx{st: st}
	f.h = simplefixgo.NewInitiatorHandler(context.Background(), "35", fxBuf)
	s, err := NewInitiatorSession(f.h, verifOpts("0"),
		&LogonSettings{TargetCompID: "SRV", SenderCompID: "CLI", HeartBtInt: hb, EncryptMethod: method, Username: user, Password: pass,
			LogonTimeout: time.Second, CloseTimeout: closeTimeout}, st, st)
	if err != nil {
		panic("fixture: NewInitiatorSession: " + err.Error())
	}
	f.s = s
	f.watch()
	if err := s.Run(); err != nil {
		panic("fixture: Run")
	}
	return f
}

var errRefused = errors.New("refused")

// ---- inbound message construction ----

func setHdr(h *fixgen.Header, sender, target string, seq int) {
	h.SetSenderCompID(sender).SetTargetCompID(target).SetMsgSeqNum(seq).SetSendingTime("20210706-19:06:12.838")
}

type wireMsg interface {
	ToBytes() ([]byte, error)
}

func wire(m wireMsg) []byte {
	b, err := m.ToBytes()
	if err != nil {
		panic("fixture: ToBytes")
	}
	return append([]byte{}, b...)
}

// serve dispatches one inbound message and returns what the session transmitted during the step.
func (f *fx) serve(msg []byte) [][]byte {
	_ = f.h.VerifServe(msg)
	return f.h.VerifOut()
}

// logon drives an accepting fixture through a valid logon (concrete) and drains the answer.
func (f *fx) logon(sender, target string, seq, hb int) [][]byte {
	lg := fixgen.CreateLogon("0", hb)
	setHdr(lg.Header(), sender, target, seq)
	return f.serve(wire(lg))
}

// ---- tokenizer for transmitted messages (independent of the library's parser) ----

type tok struct {
	tag string
	val []byte
}

func tokens(b []byte) []tok {
	var r []tok
	st := 0
	for i := 0; i < len(b); i++ {
		if b[i] != 1 {
			continue
		}
		f := b[st:i]
		eq := -1
		for j := range f {
			if f[j] == '=' {
				eq = j
				break
			}
		}
		if eq >= 0 {
			r = append(r, tok{string(f[:eq]), f[eq+1:]})
		} else {
			r = append(r, tok{"", f})
		}
		st = i + 1
	}
	return r
}

func fieldOf(b []byte, tag string) ([]byte, bool) {
	for _, t := range tokens(b) {
		if t.tag == tag {
			return t.val, true
		}
	}
	return nil, false
}

func typeOf(b []byte) string {
	v, _ := fieldOf(b, "35")
	return string(v)
}

func isType(b []byte, t string) bool { return zz.EqStr(typeOf(b), t) }

func atoi(b []byte) int {
	n, err := strconv.Atoi(string(b))
	if err != nil {
		return -1
	}
	return n
}

// damage kinds for inbound messages
const (
	dmgNone = iota
	dmgChecksum   // one checksum digit replaced by another byte
	dmgBodyLength // last BodyLength digit replaced by another digit
	dmgSeqMissing // MsgSeqNum field absent and a wrong checksum byte (a missing MsgSeqNum alone leaves the message parsable)
	dmgSeqAlpha   // MsgSeqNum value non-numeric (message re-framed correctly)
	dmgNumField   // a numeric body field's value made non-numeric (re-framed correctly)
	dmgNumEmpty   // a numeric body field present with an empty value (re-framed correctly)
	dmgSeqEmpty   // MsgSeqNum present with an empty value (re-framed correctly)
	dmgNumHuge    // a numeric body field holding a 20-digit decimal number (not representable as int)
	dmgSeqHuge    // MsgSeqNum holding a 20-digit decimal number
	dmgDecoySeq   // wrong checksum, and a user-defined field whose tag ends in the MsgSeqNum tag (5034=d) placed before MsgSeqNum
	nDamage
)

// reframe recomputes BodyLength and CheckSum of a message given as field list text (without 8,9,10).
func reframe(mid []byte) []byte {
	out := append([]byte("8=FIX.4.4\x019="), strconv.Itoa(len(mid))...)
	out = append(out, 1)
	out = append(out, mid...)
	sum := 0
	for _, c := range out {
		sum += int(c)
	}
	sum %= 256
	out = append(out, '1', '0', '=', byte('0'+sum/100), byte('0'+sum/10%10), byte('0'+sum%10), 1)
	return out[:len(out):len(out)]
}

// middle returns the bytes between the BodyLength field and the CheckSum field.
func middle(b []byte) []byte {
	n := 0
	i := 0
	for ; i < len(b) && n < 2; i++ {
		if b[i] == 1 {
			n++
		}
	}
	return b[i : len(b)-7]
}

// applyDamage returns a damaged copy of a well-formed message. numTag is the numeric body field
// used by dmgNumField ("" if the type has none).
func applyDamage(b []byte, kind int, numTag string) []byte {
	d := append([]byte{}, b...)
	switch kind {
	case dmgChecksum:
		x := zz.Byte()
		zz.Assume(x != d[len(d)-2])
		zz.Assume(x != 1)
		d[len(d)-2] = x
	case dmgBodyLength:
		// position of the last BodyLength digit: just before the second SOH
		n, i := 0, 0
		for ; i < len(d); i++ {
			if d[i] == 1 {
				n++
				if n == 2 {
					break
				}
			}
		}
		x := zz.Byte()
		zz.Assume(x >= '0')
		zz.Assume(x <= '9')
		zz.Assume(x != d[i-1])
		d[i-1] = x
	case dmgDecoySeq:
		var mid []byte
		for _, t := range tokens(middle(b)) {
			if t.tag == "34" {
				x := zz.Byte()
				zz.Assume(zz.And(x >= '0', x <= '9'))
				mid = append(mid, "5034="...)
				mid = append(mid, x, 1)
			}
			mid = append(mid, t.tag...)
			mid = append(mid, '=')
			mid = append(mid, t.val...)
			mid = append(mid, 1)
		}
		return applyDamage(reframe(mid), dmgChecksum, "")
	case dmgSeqMissing, dmgSeqAlpha, dmgNumField, dmgNumEmpty, dmgSeqEmpty, dmgNumHuge, dmgSeqHuge:
		var mid []byte
		target := "34"
		if kind == dmgNumField || kind == dmgNumEmpty || kind == dmgNumHuge {
			target = numTag
		}
		for _, t := range tokens(middle(b)) {
			if t.tag == target {
				if kind == dmgSeqMissing {
					continue
				}
				mid = append(mid, t.tag...)
				mid = append(mid, '=')
				if kind == dmgNumEmpty || kind == dmgSeqEmpty {
					mid = append(mid, 1)
					continue
				}
				if kind == dmgNumHuge || kind == dmgSeqHuge {
					// 20 digits: first digit and the last two symbolic (2^64 = 18446744073709551616, so
					// 2^64+0 .. 2^64+83 - every small value a wrapping parser could produce - is inside)
					hi, l1, lo := zz.Byte(), zz.Byte(), zz.Byte()
					zz.Assume(zz.And(hi >= '1', hi <= '9'))
					zz.Assume(zz.And(l1 >= '0', l1 <= '9'))
					zz.Assume(zz.And(lo >= '0', lo <= '9'))
					mid = append(mid, hi)
					mid = append(mid, "84467440737095516"...)
					mid = append(mid, l1, lo, 1)
					continue
				}
				x := zz.Byte()
				zz.Assume(zz.Or(x < '0', x > '9'))
				zz.Assume(x != 1)
				zz.Assume(x != '+')
				zz.Assume(x != '-')
				mid = append(mid, x)
				mid = append(mid, t.val[1:]...)
				mid = append(mid, 1)
				continue
			}
			mid = append(mid, t.tag...)
			mid = append(mid, '=')
			mid = append(mid, t.val...)
			mid = append(mid, 1)
		}
		d = reframe(mid)
		if kind == dmgSeqMissing {
			return applyDamage(d, dmgChecksum, "")
		}
	}
	return d[:len(d):len(d)]
}

// dropSeqNum removes the MsgSeqNum field and re-frames the message correctly.
func dropSeqNum(b []byte) []byte {
	var mid []byte
	for _, t := range tokens(middle(b)) {
		if t.tag == "34" {
			continue
		}
		mid = append(mid, t.tag...)
		mid = append(mid, '=')
		mid = append(mid, t.val...)
		mid = append(mid, 1)
	}
	return reframe(mid)
}

// ---- admin message factory ----

const (
	mLogon = iota
	mLogout
	mHeartbeat
	mTestRequest
	mResendRequest
	mReject
	mApp     // an application message type the session has no handler for
	mUnknown // a one-byte symbolic message type different from all of the above
	nMsgKinds
)

// fxHugeHB, when non-zero, is the HeartBtInt of the Logon mkInbound builds (a value whose interval
// does not fit time.Duration; only meaningful against a session without an upper heartbeat limit).
var fxHugeHB int

// mkInbound builds a well-formed inbound message of the given kind with symbolic contents.
// It returns the bytes and the tag of a numeric body field ("" if none).
func mkInbound(kind int, sender, target string, seq int) ([]byte, string) {
	switch kind {
	case mLogon:
		hbInt := zz.IntIn(10, 99)
		if fxHugeHB != 0 {
			hbInt = fxHugeHB
		}
		m := fixgen.CreateLogon(string(zz.Bytes(1)), hbInt)
		if zz.Param(9)/2%2 == 1 {
			m.SetResetSeqNumFlag(true)
		}
		setHdr(m.Header(), sender, target, seq)
		return wire(m), "108"
	case mLogout:
		m := fixgen.CreateLogout()
		setHdr(m.Header(), sender, target, seq)
		return wire(m), ""
	case mHeartbeat:
		m := fixgen.CreateHeartbeat()
		if zz.Param(9)%2 == 1 {
			m.SetTestReqID(string(zz.Bytes(2)))
		}
		setHdr(m.Header(), sender, target, seq)
		return wire(m), ""
	case mTestRequest:
		m := fixgen.CreateTestRequest(string(zz.Bytes(2)))
		setHdr(m.Header(), sender, target, seq)
		return wire(m), ""
	case mResendRequest:
		m := fixgen.CreateResendRequest(zz.IntIn(0, 9), zz.IntIn(0, 9))
		setHdr(m.Header(), sender, target, seq)
		return wire(m), "7"
	case mReject:
		m := fixgen.CreateReject(zz.IntIn(1, 9))
		setHdr(m.Header(), sender, target, seq)
		return wire(m), "45"
	case mApp, mUnknown:
		mt := "D"
		if kind == mUnknown {
			x := zz.Byte()
			zz.Assume(x != 1)
			for _, c := range []byte("A5012343D") {
				zz.Assume(x != c)
			}
			mt = string([]byte{x})
		}
		m := fix.NewMessage("8", "9", "10", "35", "FIX.4.4", mt).
			SetHeader(fixgen.NewHeader(sender, target, seq, "20210706-19:06:12.838").AsComponent()).
			SetBody(fix.NewKeyValue("11", fix.NewString(string(zz.Bytes(2))))).
			SetTrailer(fix.NewComponent())
		return wire(m), ""
	}
	panic("kind")
}

func contextBG() context.Context { return context.Background() }
