package session

import (
	"strconv"
	"time"

	"github.com/b2broker/simplefix-go/storages/memory"
	fixgen "github.com/b2broker/simplefix-go/tests/fix44"
	"github.com/b2broker/simplefix-go/utils"
	zz "github.com/b2broker/simplefix-go/zzverif"
)

// loggedOnHB logs a fixture on with heartbeat interval hb (may be symbolic, 2 digits).
func loggedOnHB(role int, hb int) *fx {
	st := memory.NewStorage()
	if role == 0 {
		f := newAcceptor(st, 1, 9999, 0, "0")
		_ = f.logon("CLI", "SRV", 1, hb)
		f.relog(role, hb)
		return f
	}
	f := newInitiator(st, hb, "0", "user", "pw", 0)
	_ = f.h.VerifOut()
	lg := fixgen.CreateLogon("0", 30)
	setHdr(lg.Header(), "SRV", "CLI", 1)
	_ = f.serve(wire(lg))
	f.relog(role, hb)
	return f
}

// H_C08_params: the two timers created at logon carry the negotiated interval.
// params: [role, hbClass (0: symbolic 10..99, 1: symbolic 100..999, else concrete value)]
// timer 0 = inbound silence timer: N + max(1, N/20) seconds; timer 1 = outbound heartbeat timer: N seconds.
func H_C08_params() {
	var hb int
	switch zz.Param(1) {
	case 0:
		hb = zz.IntIn(10, 99)
	case 1:
		hb = zz.IntIn(100, 999)
	default:
		hb = zz.Param(1)
	}
	f := loggedOnHB(zz.Param(0), hb)
	zz.Assume(f.s.IsLogged())
	zz.Reach("logged")
	zz.Assert(zz.Timers() == 2, "C08: logon does not create exactly two timers")
	tol := hb / 20
	if tol < 1 {
		tol = 1
	}
	zz.Assert(zz.TimerField(1, "timeout") == int64(time.Second)*int64(hb), "C08: heartbeat timer is not armed with the negotiated interval N")
	zz.Assert(zz.TimerField(0, "timeout") == int64(time.Second)*int64(hb+tol), "C09: silence timer is not armed with N + max(1, N/20)")
	zz.Assert(zz.TimerField(1, "checkingTimeout")*10 <= zz.TimerField(1, "timeout"), "C08: heartbeat polling granularity exceeds N/10")
	zz.Assert(zz.Spawned() == 2, "C08: logon does not start exactly two timer goroutines")
}

// H_C08_refresh: every outbound message refreshes the heartbeat timer, every inbound message the
// silence timer, to the clock value read during that step. params: [role, dir (0 out, 1 in), kind]
func H_C08_refresh() {
	fxRelog = zz.Param(3)
	tb := 2 * fxRelog
	f := loggedOnHB(zz.Param(0), 30)
	zz.Assume(f.s.IsLogged())
	_ = f.h.VerifOut()
	peer, me := "CLI", "SRV"
	if zz.Param(0) == 1 {
		peer, me = "SRV", "CLI"
	}
	n0 := zz.NowCount()
	if zz.Param(1) == 0 {
		switch zz.Param(2) {
		case 0:
			_ = f.s.Send(fixgen.CreateHeartbeat())
		case 1:
			_ = f.s.Send(fixgen.CreateTestRequest(string(zz.Bytes(2))))
		case 3:
			// retransmission of stored messages requested by the peer
			_ = f.s.Send(fixgen.CreateHeartbeat())
			_ = f.h.VerifOut()
			n0 = zz.NowCount()
			rr := fixgen.CreateResendRequest(1, 0)
			setHdr(rr.Header(), peer, me, 2)
			out := f.serve(wire(rr))
			zz.Assume(len(out) > 0)
		default:
			b, _ := mkInbound(mTestRequest, peer, me, 2) // a reply produced on the inbound path
			_ = f.serve(b)
		}
		n1 := zz.NowCount()
		zz.Reach("sent")
		zz.Assert(n1 > n0, "C08: no clock reading during a send")
		lu := zz.TimerField(tb+1, "lastUpdate")
		zz.Assert(lu > zz.NowAt(n0), "C08: an outbound message does not refresh the heartbeat timer")
		zz.Assert(lu <= zz.NowAt(n1), "C08: heartbeat timer refreshed to an instant not read during the send")
	} else {
		k := zz.Param(2)
		b, numTag := mkInbound(k%nMsgKinds, peer, me, 2)
		d := applyDamage(b, k/nMsgKinds, numTag)
		if k/nMsgKinds == dmgNumField && numTag == "" {
			zz.Assume(false)
		}
		f.s.changeState(WaitingTestReqAnswer, true)
		_ = f.serve(d)
		n1 := zz.NowCount()
		zz.Reach("received")
		lu := zz.TimerField(tb, "lastUpdate")
		zz.Assert(zz.And(lu > zz.NowAt(n0), lu <= zz.NowAt(n1)), "C09: an inbound message does not refresh the silence timer")
		zz.Assert(f.s.state != WaitingTestReqAnswer, "C09: an inbound message does not cancel the pending disconnect")
	}
}

// H_C08_heartbeat: one iteration of the heartbeat goroutine. params: [role, state, cancelled]
// state 0: logged on; 1: waiting for a TestRequest answer (still a logged-on session)
func H_C08_heartbeat() {
	zz.TimerStub(true)
	fxRelog = zz.Param(3)
	tb := 2 * fxRelog
	f := loggedOnHB(zz.Param(0), 30)
	zz.Assume(f.s.IsLogged())
	_ = f.h.VerifOut()
	zz.Yield() // both timer goroutines run up to their first TakeTimeout
	zz.Assert(zz.And(zz.TimerWaiting(tb), zz.TimerWaiting(tb+1)), "C08: timer goroutines are not waiting on their timers after logon")
	zz.Assert(len(f.h.VerifOut()) == 0, "C08: a message is transmitted before the heartbeat timer expired")
	if zz.Param(1) == 1 {
		f.s.changeState(WaitingTestReqAnswer, true)
	}
	if zz.Param(2) == 1 {
		f.s.cancel()
	}
	if zz.Param(2) == 2 {
		// the way a connection's end reaches the session: the handler is stopped (C13), the
		// session's context is derived from the handler's
		f.h.Stop()
	}
	zz.FireTimer(tb + 1)
	zz.Yield()
	out := f.h.VerifOut()
	zz.Reach("fired")
	if zz.Param(2) >= 1 {
		zz.Assert(len(out) == 0, "C08: heartbeat sent by a cancelled session")
		zz.Assert(zz.Done(tb + 1), "C08: heartbeat goroutine does not exit when the session is cancelled")
		return
	}
	zz.Assert(len(out) == 1, "C08: heartbeat timer expiry does not transmit exactly one message")
	zz.Assert(isType(out[0], "0"), "C08: heartbeat timer expiry transmits something other than a Heartbeat")
	_, has := fieldOf(out[0], "112")
	zz.Assert(!has, "C08: unsolicited Heartbeat carries a TestReqID")
	zz.Assert(zz.TimerWaiting(tb+1), "C08: heartbeat goroutine does not wait for the next period")
	// next period
	zz.FireTimer(tb + 1)
	zz.Yield()
	out = f.h.VerifOut()
	zz.Assert(zz.And(len(out) == 1, isType(out[0], "0")), "C08: second heartbeat period does not transmit exactly one Heartbeat")
}

// H_C09_probe: iterations of the silence goroutine. params: [role, scenario, inbound kind, relog, logoutPending]
// 0: silence -> TestRequest #1, silence -> disconnect
// 1: silence -> TestRequest #1, inbound message (any kind, param 2) -> silence -> TestRequest #2 (no disconnect)
// 2: session cancelled -> goroutine exits silently
func H_C09_probe() {
	zz.TimerStub(true)
	fxRelog = zz.Param(3)
	tb := 2 * fxRelog
	role := zz.Param(0)
	f := loggedOnHB(role, 30)
	zz.Assume(f.s.IsLogged())
	_ = f.h.VerifOut()
	for k := range f.events {
		delete(f.events, k)
	}
	peer, me := "CLI", "SRV"
	if role == 1 {
		peer, me = "SRV", "CLI"
	}
	zz.Yield()
	if zz.Param(4) == 1 {
		// the application has asked for a logout and the peer goes silent without answering it
		_ = f.s.Logout()
		_ = f.h.VerifOut()
		for k := range f.events {
			delete(f.events, k)
		}
	}
	zz.Class("scenario=" + strconv.Itoa(zz.Param(1)) + "/logoutPending=" + strconv.Itoa(zz.Param(4)))
	if zz.Param(1) == 3 {
		f.h.Stop() // the handler of the connection is stopped: the session's context follows
	}
	if zz.Param(1) == 2 || zz.Param(1) == 3 {
		if zz.Param(1) == 2 {
			f.s.cancel()
		}
		zz.FireTimer(tb)
		zz.Yield()
		zz.Reach("fired")
		zz.Assert(len(f.h.VerifOut()) == 0, "C09: a cancelled session probes its peer")
		zz.Assert(zz.Done(tb), "C09: silence goroutine does not exit when the session is cancelled")
		return
	}
	zz.FireTimer(tb)
	zz.Yield()
	out := f.h.VerifOut()
	zz.Reach("fired")
	zz.Assert(len(out) == 1, "C09: first silence period does not transmit exactly one message")
	zz.Assert(isType(out[0], "1"), "C09: first silence period does not transmit a TestRequest")
	id, _ := fieldOf(out[0], "112")
	zz.Assert(atoi(id) == 1, "C09: first TestRequest does not carry TestReqID 1")
	zz.Assert(f.events[utils.EventDisconnect] == 0, "C09: disconnect after a single silence period")
	zz.Assert(!f.h.VerifStopped(), "C09: handler stopped after a single silence period")
	if zz.Param(1) == 0 {
		zz.FireTimer(tb)
		zz.Yield()
		out = f.h.VerifOut()
		zz.Assert(f.events[utils.EventDisconnect] == 1, "C09: second silence period does not raise the disconnect event once")
		zz.Assert(f.h.VerifStopped(), "C09: second silence period does not stop the handler")
		select {
		case <-f.s.ctx.Done():
		default:
			zz.Assert(false, "C09: second silence period does not cancel the session")
		}
		zz.Assert(zz.Done(tb), "C09: silence goroutine keeps running after the disconnect")
		for _, o := range out {
			zz.Assert(!isType(o, "1"), "C09: a further TestRequest instead of a disconnect")
		}
		return
	}
	// scenario 1: anything arrives in the second period
	k := zz.Param(2)
	b, numTag := mkInbound(k%nMsgKinds, peer, me, 2)
	if k/nMsgKinds == dmgNumField && numTag == "" {
		zz.Assume(false)
	}
	_ = f.serve(applyDamage(b, k/nMsgKinds, numTag))
	_ = f.h.VerifOut()
	zz.FireTimer(tb)
	zz.Yield()
	out = f.h.VerifOut()
	zz.Assert(f.events[utils.EventDisconnect] == 0, "C09: disconnect although a message arrived in the second period")
	zz.Assert(!f.h.VerifStopped(), "C09: handler stopped although a message arrived in the second period")
	zz.Assert(zz.And(len(out) == 1, isType(out[0], "1")), "C09: a new silence period after inbound traffic does not start with a TestRequest")
	id, _ = fieldOf(out[0], "112")
	zz.Assert(atoi(id) == 2, "C09: second TestRequest does not carry TestReqID 2")
}

// H_C08_relogon: Logon(N1), Logout exchange, Logon(N2) on one session (the peer logs out and on again
// over the same connection). Afterwards the session is logged on with interval N (N2 for the
// acceptor, its own configured interval for the initiator). Under the contract of utils.Timer
// (TakeTimeout returns T after the last refresh; checked by H_C08_timer) a message emitted on the
// expiry of a timer armed with T is emitted T after the previous outbound/inbound message, so:
// mode 0 (C08): a Heartbeat may only be emitted by a timer with T >= N, and some live timer with T <= N emits one;
// mode 1 (C09): a TestRequest may only be emitted by a timer with T >= N+max(1,N/20), and some live timer with exactly that T emits one.
// params: [role, n1, n2, mode]
func H_C08_relogon() {
	zz.TimerStub(true)
	role, n1, n2, mode := zz.Param(0), zz.Param(1), zz.Param(2), zz.Param(3)
	if n1 == 0 {
		n1 = zz.IntIn(10, 99)
	}
	if n2 == 0 {
		n2 = zz.IntIn(10, 99)
	}
	st := memory.NewStorage()
	var f *fx
	peer, me := "CLI", "SRV"
	n := n2
	if role == 0 {
		f = newAcceptor(st, 1, 9999, 0, "0")
		_ = f.logon(peer, me, 1, n1)
	} else {
		peer, me = "SRV", "CLI"
		n = n1
		f = newInitiator(st, n1, "0", "user", "pw", 0)
		_ = f.h.VerifOut()
		_ = f.logon(peer, me, 1, n1)
	}
	zz.Assume(f.s.IsLogged())
	zz.Yield()
	b, _ := mkInbound(mLogout, peer, me, 2)
	_ = f.serve(b)
	zz.Assume(!f.s.IsLogged())
	_ = f.logon(peer, me, 3, n2)
	zz.Assume(f.s.IsLogged())
	_ = f.h.VerifOut()
	zz.Yield()
	zz.Reach("relogged")
	want := int64(time.Second) * int64(n)
	emitType := "0"
	if mode == 1 {
		tol := n / 20
		if tol < 1 {
			tol = 1
		}
		want = int64(time.Second) * int64(n+tol)
		emitType = "1"
	}
	live := 0
	for i := 0; i < zz.Timers(); i++ {
		if !zz.TimerWaiting(i) {
			continue
		}
		to := zz.TimerField(i, "timeout")
		f.s.changeState(SuccessfulLogged, false)
		zz.FireTimer(i)
		zz.Yield()
		for _, o := range f.h.VerifOut() {
			if !isType(o, emitType) {
				continue
			}
			if mode == 0 {
				zz.Assert(to >= want, "C08: after a second logon a Heartbeat is still emitted on the expiry of a timer armed with a shorter interval than the one in force")
			} else {
				zz.Assert(to >= want, "C09: after a second logon a TestRequest is still emitted on the expiry of a timer armed with a shorter period than the one in force")
			}
			if to <= want {
				live++
			}
		}
	}
	if mode == 0 {
		zz.Assert(live >= 1, "C08: after a second logon no timer armed with the interval in force emits the Heartbeat")
	} else {
		zz.Assert(live >= 1, "C09: after a second logon no timer armed with the period in force emits the TestRequest")
	}
}

// H_C13_session: the goroutines a session starts end once the handler of its connection is stopped
// (which is what the end of the connection does, C13), after any history of logons: each live timer
// expires at most once more (the bounded settling time is one heartbeat period) and then no
// goroutine started by the session remains. params: [role, history]
// history 0: one logon; 1: logon, logout exchange, second logon; 2: logon, local Stop answered by
// the peer, a further Logon from the peer; 3: logon, probe pending
func H_C13_session() {
	zz.TimerStub(true)
	role, hist := zz.Param(0), zz.Param(1)
	zz.Class("session/role=" + strconv.Itoa(role) + "/history=" + strconv.Itoa(hist))
	if hist == 1 {
		fxRelog = 1
	}
	f := loggedOnHB(role, 30)
	zz.Assume(f.s.IsLogged())
	_ = f.h.VerifOut()
	zz.Yield()
	peer, me := "CLI", "SRV"
	if role == 1 {
		peer, me = "SRV", "CLI"
	}
	switch hist {
	case 2:
		_ = f.s.Stop()
		lo := fixgen.CreateLogout()
		setHdr(lo.Header(), peer, me, 2)
		_ = f.serve(wire(lo))
		_ = f.logon(peer, me, 3, 30)
		_ = f.h.VerifOut()
		zz.Yield()
	case 3:
		zz.FireTimer(0)
		zz.Yield()
		_ = f.h.VerifOut()
	}
	f.h.Stop() // the connection ended
	zz.Yield()
	for round := 0; round < 2; round++ {
		for i := 0; i < zz.Timers(); i++ {
			if zz.TimerWaiting(i) {
				zz.FireTimer(i)
				zz.Yield()
			}
		}
	}
	zz.Reach("settled")
	zz.Assert(zz.Goroutines() == 0, "C13: a goroutine started by the session remains after its connection ended and every timer expired once more")
	zz.Assert(len(f.h.VerifOut()) == 0, "C13: a session whose connection ended still hands messages to the outbound queue")
}
