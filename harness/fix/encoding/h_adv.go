package encoding

import (
	"strconv"

	"github.com/b2broker/simplefix-go/fix"
	zz "github.com/b2broker/simplefix-go/zzverif"
)

func unmarshalMode(strictParam int) DefaultUnmarshaller {
	return DefaultUnmarshaller{Strict: strictParam == 0, Validator: DefaultValidator{}}
}

// ---------------- C11: no byte string crashes or hangs the decoder ----------------

// H_C11_raw: completely arbitrary bytes. params: [n, template, strict]
func H_C11_raw() {
	d := zz.RawBytes(zz.Param(0))
	zz.Class("raw/tmpl=" + strconv.Itoa(zz.Param(1)))
	t := buildMessage(template(zz.Param(1)))
	_ = unmarshalMode(zz.Param(2)).Unmarshal(t, d)
	zz.Reach("returned")
}

// framed builds  8=<bs>|9=<len>|X|10=ccc|  with X and the checksum text symbolic.
func framed(bs string, x []byte) []byte {
	d := append([]byte("8="), bs...)
	d = append(d, 1, '9', '=')
	d = append(d, strconv.Itoa(len(x)+1)...)
	d = append(d, 1)
	d = append(d, x...)
	d = append(d, 1, '1', '0', '=')
	d = append(d, zz.Bytes(3)...)
	d = append(d, 1)
	return d[:len(d):len(d)]
}

// H_C11_framed: correct framing around n arbitrary bytes, so that field and group parsing is
// reached with adversarial content. params: [n, template, strict]
func H_C11_framed() {
	s := template(zz.Param(1))
	zz.Class("framed/tmpl=" + strconv.Itoa(zz.Param(1)))
	d := framed(s.bs, zz.RawBytes(zz.Param(0)))
	t := buildMessage(s)
	err := unmarshalMode(zz.Param(2)).Unmarshal(t, d)
	if err == nil {
		zz.Reach("accepted")
	}
	zz.Reach("returned")
}

// H_C11_vbt: ValueByTag on arbitrary bytes with an arbitrary tag. params: [n, k]
func H_C11_vbt() {
	zz.Class("vbt")
	d := zz.RawBytes(zz.Param(0))
	tag := string(zz.RawBytes(zz.Param(1)))
	_, _ = fix.ValueByTag(d, tag)
	zz.Reach("returned")
}

// fieldBounds returns the start offsets of the fields of a serialized message (after each SOH).
func fieldBounds(b []byte) []int {
	r := []int{0}
	for i, c := range b {
		if c == 1 && i+1 < len(b) {
			r = append(r, i+1)
		}
	}
	return r
}

// H_C11_window: a valid serialized shape in which one field is replaced by (mode 0) or one field
// boundary is filled with (mode 1) a window of w arbitrary bytes; BodyLength recomputed, checksum
// text symbolic. params: [template, mask, cnt0, cnt1, cnt2, lenSel, route, strict, fieldIdx, w, mode]
func H_C11_window() {
	s := template(zz.Param(0))
	zz.Class("window/tmpl=" + strconv.Itoa(zz.Param(0)))
	m := buildMessage(s)
	p := ctlFromParams(1)
	p.first = true
	p.populateMessage(s, m)
	b, err := m.ToBytes()
	zz.Assume(err == nil)
	fb := fieldBounds(b)
	// body fields are fb[2 .. len-2] (after BeginString, BodyLength; before CheckSum)
	idx := 2 + zz.Param(8)
	if idx >= len(fb)-1 {
		zz.Assume(false)
	}
	w := zz.RawBytes(zz.Param(9))
	var x []byte
	bodyStart, bodyEnd := fb[2], fb[len(fb)-1]-1 // bodyEnd: index of the SOH before "10="
	if zz.Param(10) == 0 {
		x = append(x, b[bodyStart:fb[idx]]...)
		x = append(x, w...)
		x = append(x, b[fb[idx+1]-1:bodyEnd]...)
	} else {
		x = append(x, b[bodyStart:fb[idx]]...)
		x = append(x, w...)
		x = append(x, 1)
		x = append(x, b[fb[idx]:bodyEnd]...)
	}
	d := framed(s.bs, x)
	t := buildMessage(s)
	e2 := unmarshalMode(zz.Param(7)).Unmarshal(t, d)
	if e2 == nil {
		zz.Reach("accepted")
	}
	zz.Reach("returned")
}

// ---------------- C03: damaged messages are rejected ----------------

// H_C03_damage: one-byte damage of a valid serialized shape.
// params: [template, mask, cnt0, cnt1, cnt2, lenSel, route, strict, kind, pos]
// kind 0: substitute b[pos] by any other byte; 1: insert any byte before pos (interior);
// 2: delete b[pos]; 3: proper prefix of length pos.
func H_C03_damage() {
	s := template(zz.Param(0))
	m := buildMessage(s)
	p := ctlFromParams(1)
	p.first = true
	p.populateMessage(s, m)
	b, err := m.ToBytes()
	zz.Assume(err == nil)
	kind, pos := zz.Param(8), zz.Param(9)
	zz.Class("damage/kind=" + strconv.Itoa(kind) + "/" + regionOf(b, pos))
	var d []byte
	switch kind {
	case 0:
		if pos >= len(b) {
			zz.Assume(false)
		}
		d = append(d, b...)
		x := zz.Byte()
		zz.Assume(x != b[pos])
		d[pos] = x
	case 1:
		if pos < 1 || pos >= len(b) {
			zz.Assume(false)
		}
		d = append(d, b[:pos]...)
		d = append(d, zz.Byte())
		d = append(d, b[pos:]...)
	case 2:
		if pos >= len(b) {
			zz.Assume(false)
		}
		d = append(d, b[:pos]...)
		d = append(d, b[pos+1:]...)
	case 3:
		if pos >= len(b) {
			zz.Assume(false)
		}
		d = append(d, b[:pos]...)
	}
	d = d[:len(d):len(d)]
	t := buildMessage(s)
	var e2 error
	panicked := zz.Panics(func() { e2 = unmarshalMode(zz.Param(7)).Unmarshal(t, d) })
	zz.Reach("decided")
	// a crash is not "reported as successfully parsed"; crashes are C11's subject
	zz.Assert(zz.Or(panicked, e2 != nil), "C03: a damaged message is accepted")
}

// regionOf names the part of the message a position falls into (for classification only).
func regionOf(b []byte, pos int) string {
	fb := fieldBounds(b)
	f := 0
	for i, st := range fb {
		if pos >= st {
			f = i
		}
	}
	name := "field" + strconv.Itoa(f)
	switch {
	case f == 0:
		name = "BeginString"
	case f == 1:
		name = "BodyLength"
	case f == len(fb)-1:
		name = "CheckSum"
	}
	// tag or value?
	eq := -1
	for i := fb[f]; i < len(b) && b[i] != 1; i++ {
		if b[i] == '=' {
			eq = i
			break
		}
	}
	switch {
	case pos >= len(b):
		return name + ".end"
	case b[pos] == 1:
		return name + ".soh"
	case eq >= 0 && pos < eq:
		return name + ".tag"
	case pos == eq:
		return name + ".eq"
	}
	return name + ".value"
}

// H_C03_accept: whatever is accepted has a BodyLength and CheckSum that agree with its content.
// d = 8=<bs>|9=LL|X|10=ccc| with LL, X, ccc symbolic. params: [n, template, strict, ndigits]
func H_C03_accept() {
	s := template(zz.Param(1))
	zz.Class("accept/tmpl=" + strconv.Itoa(zz.Param(1)))
	n := zz.Param(0)
	ll := zz.Digits(zz.Param(3))
	x := zz.RawBytes(n)
	cs := zz.Bytes(3)
	d := append([]byte("8="), s.bs...)
	d = append(d, 1, '9', '=')
	d = append(d, ll...)
	d = append(d, 1)
	d = append(d, x...)
	d = append(d, 1, '1', '0', '=')
	d = append(d, cs...)
	d = append(d, 1)
	d = d[:len(d):len(d)]
	t := buildMessage(s)
	var err error
	panicked := zz.Panics(func() { err = unmarshalMode(zz.Param(2)).Unmarshal(t, d) })
	zz.Assume(!panicked)
	if err != nil {
		zz.Reach("rejected")
		return
	}
	zz.Reach("accepted")
	// independent oracle: declared length == measured length, checksum text == recomputed
	decl := 0
	for _, c := range ll {
		decl = decl*10 + int(c-'0')
	}
	zz.Assert(decl == n+1, "C03: accepted although BodyLength disagrees with the content")
	sum := 0
	for _, c := range d[:len(d)-7] {
		sum += int(c)
	}
	sum %= 256
	ok := zz.And(cs[0] == byte('0'+sum/100), zz.And(cs[1] == byte('0'+sum/10%10), cs[2] == byte('0'+sum%10)))
	zz.Assert(ok, "C03: accepted although CheckSum disagrees with the content")
}

// ---------------- C18: tags are recognised only at field boundaries ----------------

// H_C18_vbt: ValueByTag on a well-formed message returns the value of exactly that field.
// params: [template, mask, cnt0, cnt1, cnt2, lenSel, route]
func H_C18_vbt() {
	zz.Class(shapeClass())
	s := template(zz.Param(0))
	m := buildMessage(s)
	p := ctlFromParams(1)
	p.first = true
	exp := p.populateMessage(s, m)
	b, err := m.ToBytes()
	zz.Assume(err == nil)
	zz.Reach("serialized")
	v, e := fix.ValueByTag(b, "35")
	zz.Assert(e == nil, "C18: ValueByTag(MsgType) fails on a well-formed message")
	zz.Assert(zz.EqBytes(v, []byte(s.mt)), "C18: ValueByTag(MsgType) returns another field's content")
	v, e = fix.ValueByTag(b, "8")
	zz.Assert(zz.And(e == nil, zz.EqBytes(v, []byte(s.bs))), "C18: ValueByTag(BeginString) wrong")
	// every populated top-level (non-repeating) field: first occurrence in wire order
	seen := map[string]bool{}
	for _, f := range exp {
		if seen[f.tag] {
			continue
		}
		seen[f.tag] = true
		v, e = fix.ValueByTag(b, f.tag)
		zz.Assert(e == nil, "C18: ValueByTag fails for a present tag "+f.tag)
		zz.Assert(zz.EqBytes(v, f.val), "C18: ValueByTag returns the wrong bytes for tag "+f.tag)
	}
	// absent template tags are reported as absent
	var walk func(ds []*nd)
	walk = func(ds []*nd) {
		for _, d := range ds {
			if d.n == nLeaf {
				if !seen[d.tag] {
					_, e := fix.ValueByTag(b, d.tag)
					zz.Assert(e != nil, "C18: ValueByTag finds a tag that is not in the message: "+d.tag)
				}
			} else {
				if d.n == nGroup && !seen[d.tag] {
					_, e := fix.ValueByTag(b, d.tag)
					zz.Assert(e != nil, "C18: ValueByTag finds a group count that is not in the message: "+d.tag)
				}
				walk(d.kids)
			}
		}
	}
	walk(s.hdr)
	walk(s.body)
	walk(s.trl)
}
