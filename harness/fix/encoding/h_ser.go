package encoding

import (
	"strconv"
	"github.com/b2broker/simplefix-go/fix"
	zz "github.com/b2broker/simplefix-go/zzverif"
)

// params: [template, mask, cnt0, cnt1, cnt2, lenSel, route]

// H_C01_frame: BodyLength / CheckSum / framing order on the serialized form of a populated shape.
func H_C01_frame() {
	zz.Class(shapeClass())
	s := template(zz.Param(0))
	m := buildMessage(s)
	p := ctlFromParams(1)
	p.first = true
	p.populateMessage(s, m)
	out, err := m.ToBytes()
	zz.Assert(err == nil, "C01: ToBytes returned an error")
	zz.Reach("serialized")
	zz.Assert(frameOK(out, "8", "9", "35", "10", []byte(s.bs), []byte(s.mt)), "C01: framing/BodyLength/CheckSum wrong")
	// a second serialization of the same object must not disturb the first result
	cp := append([]byte{}, out...)
	out2, err2 := m.ToBytes()
	zz.Assert(err2 == nil, "C01: second ToBytes returned an error")
	zz.Assert(zz.EqBytes(out2, cp), "C01: re-serialization differs")
	zz.Assert(zz.EqBytes(out, cp), "C01: first result changed by re-serialization")
	zz.Observe("out", out)
}

// H_C01_tags: symbolic framing tag digits, BeginString and MsgType contents.
// params: [ntag8, ntag9, ntag35, ntag10, nbs, nmt, bodyLen]
func H_C01_tags() {
	tag := func(n int) string {
		b := zz.Digits(n)
		zz.Assume(b[0] != '0')
		return string(b)
	}
	t8, t9, t35, t10 := tag(zz.Param(0)), tag(zz.Param(1)), tag(zz.Param(2)), tag(zz.Param(3))
	bs := zz.Bytes(zz.Param(4))
	mt := zz.Bytes(zz.Param(5))
	m := fix.NewMessage(t8, t9, t10, t35, string(bs), string(mt)).
		SetHeader(fix.NewComponent(fix.NewKeyValue("34", fix.NewInt(7)))).
		SetBody(fix.NewKeyValue("58", fix.NewString(string(zz.Bytes(zz.Param(6)))))).
		SetTrailer(fix.NewComponent())
	out, err := m.ToBytes()
	zz.Assert(err == nil, "C01: ToBytes returned an error")
	zz.Reach("serialized")
	zz.Assert(frameOK(out, t8, t9, t35, t10, bs, mt), "C01: framing/BodyLength/CheckSum wrong (symbolic tags)")
	zz.Observe("out", out)
}

// H_C01_ballast: one String leaf whose length moves BodyLength across a digit-count boundary.
// params: [valueLen, nsym]  (the first nsym bytes are symbolic, the rest is constant ballast)
func H_C01_ballast() {
	n, k := zz.Param(0), zz.Param(1)
	v := make([]byte, n)
	for i := range v {
		if i < k {
			x := zz.Byte()
			zz.Assume(x != 1)
			v[i] = x
		} else {
			v[i] = byte('a' + i%26)
		}
	}
	m := fix.NewMessage("8", "9", "10", "35", "FIX.4.4", "0").
		SetHeader(fix.NewComponent()).
		SetBody(fix.NewKeyValue("58", fix.NewString(string(v)))).
		SetTrailer(fix.NewComponent())
	out, err := m.ToBytes()
	zz.Assert(err == nil, "C01: ToBytes returned an error")
	zz.Reach("serialized")
	zz.Assert(frameOK(out, "8", "9", "35", "10", []byte("FIX.4.4"), []byte("0")), "C01: framing/BodyLength/CheckSum wrong (ballast)")
}

// H_C01_count: a repeating group whose number of entries, and number of entries that carry a field,
// sit on either side of a digit-count boundary (9/10, 99/100). Entries listed as blank get no
// field at all. params: [entries, blankFrom, blankTo (entries blankFrom..blankTo-1 stay blank), nested]
func H_C01_count() {
	n, b0, b1 := zz.Param(0), zz.Param(1), zz.Param(2)
	g := fix.NewGroup("268",
		fix.NewKeyValue("269", &fix.String{}),
		fix.NewKeyValue("270", &fix.Int{}),
	)
	sym := zz.Byte()
	zz.Assume(sym != 1)
	for e := 0; e < n; e++ {
		entry := g.AsTemplate()
		if e < b0 || e >= b1 {
			_ = entry[0].(*fix.KeyValue).Load().Set(string([]byte{'a' + byte(e%26), sym}))
			if e%3 == 0 {
				_ = entry[1].(*fix.KeyValue).Load().Set(e)
			}
		}
		g.AddEntry(entry)
	}
	var body fix.Items
	if zz.Param(3) == 1 {
		outer := fix.NewGroup("146", fix.NewKeyValue("55", &fix.String{}), g)
		oe := outer.AsTemplate()
		_ = oe[0].(*fix.KeyValue).Load().Set("S")
		oe[1] = g
		outer.AddEntry(oe)
		body = fix.Items{outer}
	} else {
		body = fix.Items{g}
	}
	m := fix.NewMessage("8", "9", "10", "35", "FIX.4.4", "W").
		SetHeader(fix.NewComponent(fix.NewKeyValue("34", fix.NewInt(7)))).
		SetBody(body...).
		SetTrailer(fix.NewComponent())
	out, err := m.ToBytes()
	zz.Assert(err == nil, "C01: ToBytes returned an error")
	zz.Reach("serialized")
	zz.Assert(frameOK(out, "8", "9", "35", "10", []byte("FIX.4.4"), []byte("W")), "C01: framing/BodyLength/CheckSum wrong (group count on a digit boundary)")
}

// H_C17_modify: a message is serialized, then changed through references the application already
// holds (the value of a body field, a group that gets another entry, a header field that gets
// un-populated) and serialized again: the second wire form is exactly the new state.
// params: [what (0 value, 1 group entry, 2 un-populate, 3 all three)]
func H_C17_modify() {
	what := zz.Param(0)
	zz.Class("modify/what=" + strconv.Itoa(what))
	v1, v2, ev := zz.Bytes(2), zz.Bytes(3), zz.Bytes(1)
	kv := fix.NewKeyValue("58", fix.NewString(string(v1)))
	g := fix.NewGroup("268", fix.NewKeyValue("269", &fix.String{}))
	e0 := g.AsTemplate()
	_ = e0[0].(*fix.KeyValue).Load().Set("a")
	g.AddEntry(e0)
	hk := fix.NewKeyValue("50", fix.NewString("S"))
	m := fix.NewMessage("8", "9", "10", "35", "FIX.4.4", "W").
		SetHeader(fix.NewComponent(fix.NewKeyValue("34", fix.NewInt(7)), hk)).
		SetBody(kv, g).
		SetTrailer(fix.NewComponent())
	s := shape{}
	s.bs, s.mt = "FIX.4.4", "W"
	out1, err := m.ToBytes()
	zz.Assert(err == nil, "C17: ToBytes returned an error")
	exp1 := []field{{"34", []byte("7")}, {"50", []byte("S")}, {"58", v1}, {"268", []byte("1")}, {"269", []byte("a")}}
	w1 := expectedWire(s, exp1)
	zz.Assert(len(out1) == len(w1), "C17: first wire form has the wrong length")
	zz.Assert(zz.EqBytes(out1, w1), "C17: first wire form differs from the populated fields in template order")
	exp2 := []field{{"34", []byte("7")}}
	if what == 2 || what == 3 {
		_ = hk.Value.Set(nil)
	} else {
		exp2 = append(exp2, field{"50", []byte("S")})
	}
	if what == 0 || what == 3 {
		_ = kv.Load().Set(string(v2))
		exp2 = append(exp2, field{"58", v2})
	} else {
		exp2 = append(exp2, field{"58", v1})
	}
	if what == 1 || what == 3 {
		e1 := g.AsTemplate()
		_ = e1[0].(*fix.KeyValue).Load().Set(string(ev))
		g.AddEntry(e1)
		exp2 = append(exp2, field{"268", []byte("2")}, field{"269", []byte("a")}, field{"269", ev})
	} else {
		exp2 = append(exp2, field{"268", []byte("1")}, field{"269", []byte("a")})
	}
	out2, err2 := m.ToBytes()
	zz.Assert(err2 == nil, "C17: second ToBytes returned an error")
	zz.Reach("reserialized")
	w2 := expectedWire(s, exp2)
	zz.Assert(len(out2) == len(w2), "C17: after a change through a held reference the wire form has the wrong length (stale?)")
	zz.Assert(zz.EqBytes(out2, w2), "C17: after a change through a held reference the wire form is not the new state")
}

// H_C01_lowsum: reachability witness - checksums below 100 and below 10 are inside the explored space.
// params: [want]  (0: "00x", 1: "0xx")
func H_C01_lowsum() {
	m := fix.NewMessage("8", "9", "10", "35", "FIX.4.4", "0").
		SetHeader(fix.NewComponent()).
		SetBody(fix.NewKeyValue("58", fix.NewString(string(zz.Bytes(3))))).
		SetTrailer(fix.NewComponent())
	out, _ := m.ToBytes()
	n := len(out)
	if zz.Param(0) == 0 {
		zz.Assume(zz.And(out[n-4] == '0', out[n-3] == '0'))
	} else {
		zz.Assume(zz.And(out[n-4] == '0', out[n-3] != '0'))
	}
	zz.Reach("lowsum")
	zz.Assert(frameOK(out, "8", "9", "35", "10", []byte("FIX.4.4"), []byte("0")), "C01: framing/BodyLength/CheckSum wrong (low checksum)")
}

// H_C17_fields: the wire form is exactly frame(expected populated fields in template order).
func H_C17_fields() {
	zz.Class(shapeClass())
	s := template(zz.Param(0))
	m := buildMessage(s)
	p := ctlFromParams(1)
	p.strict = true
	exp := p.populateMessage(s, m)
	out, err := m.ToBytes()
	zz.Assert(err == nil, "C17: ToBytes returned an error")
	want := expectedWire(s, exp)
	zz.Reach("serialized")
	zz.Assert(len(out) == len(want), "C17: serialized length differs from the populated fields (missing, extra or empty field)")
	zz.Assert(zz.EqBytes(out, want), "C17: serialized fields differ from the populated fields")
	zz.Observe("out", out)
}

// H_C17_unset: a field populated and then un-populated with Set(nil) is absent.
func H_C17_unset() {
	zz.Class(shapeClass())
	s := template(zz.Param(0))
	m := buildMessage(s)
	p := ctlFromParams(1)
	p.strict = true
	exp := p.populateMessage(s, m)
	// un-populate the first body leaf if there is one
	if len(s.body) > 0 && s.body[0].n == nLeaf && s.body[0].k != kRaw {
		kv := m.Body()[0].(*fix.KeyValue)
		was := !kv.Value.IsNull()
		_ = kv.Value.Set(nil)
		if was {
			// drop it from the expectation
			var e2 []field
			dropped := false
			for _, f := range exp {
				if !dropped && f.tag == s.body[0].tag {
					dropped = true
					continue
				}
				e2 = append(e2, f)
			}
			exp = e2
		}
	}
	out, err := m.ToBytes()
	zz.Assert(err == nil, "C17: ToBytes returned an error")
	want := expectedWire(s, exp)
	zz.Reach("serialized")
	zz.Assert(len(out) == len(want), "C17: serialized length differs after Set(nil)")
	zz.Assert(zz.EqBytes(out, want), "C17: serialized fields differ after Set(nil)")
}

// H_C01_reuse: the bytes handed out by ToBytes stay valid when the same message object is changed
// through its setters and serialized again (a queued message must not be rewritten in place).
// params: [template, mask, cnt0, cnt1, cnt2, lenSel, route, change]
func H_C01_reuse() {
	zz.Class(shapeClass())
	s := template(zz.Param(0))
	m := buildMessage(s)
	p := ctlFromParams(1)
	p.first = true
	p.route = 3 // concrete values: this harness is about buffer ownership, not about contents
	p.populateMessage(s, m)
	out, err := m.ToBytes()
	zz.Assert(err == nil, "C01: ToBytes returned an error")
	cp := append([]byte{}, out...)
	switch zz.Param(7) {
	case 0: // shorter image: drop the body
		m.SetBody()
	case 1: // shorter image: un-populate header members
		for _, it := range m.Header().Items() {
			if kv, ok := it.(*fix.KeyValue); ok {
				_ = kv.Value.Set(nil)
			}
		}
	case 2: // longer image: one more body field
		m.SetBody(append(m.Body(), fix.NewKeyValue("9999", fix.NewString(string(zz.Bytes(2)))))...)
	}
	out2, err2 := m.ToBytes()
	zz.Assert(err2 == nil, "C01: second ToBytes returned an error")
	zz.Reach("reserialized")
	zz.Assert(frameOK(out2, "8", "9", "35", "10", []byte(s.bs), []byte(s.mt)), "C01: framing/BodyLength/CheckSum wrong after changing and re-serializing the message")
	zz.Assert(zz.EqBytes(out, cp), "C01: bytes returned by an earlier ToBytes were overwritten by a later one")
}
