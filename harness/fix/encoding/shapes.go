package encoding

// Shape grammar shared by the codec harnesses (C01, C02, C03, C11, C17, C18).
// A shape is a concrete template tree plus a concrete population (which leaves, how many group
// entries, which value lengths, which population route); only value contents are symbolic.

import (
	"strconv"
	"time"

	"github.com/b2broker/simplefix-go/fix"
	zz "github.com/b2broker/simplefix-go/zzverif"
)

const (
	kStr = iota
	kInt
	kUint
	kFloat
	kTime
	kBool
	kRaw
)

const (
	nLeaf = iota
	nComp
	nGroup
)

// nd describes one template node.
type nd struct {
	n    int // nLeaf / nComp / nGroup
	tag  string
	k    int   // leaf kind
	kids []*nd // component members / group entry template
}

func lf(tag string, k int) *nd      { return &nd{n: nLeaf, tag: tag, k: k} }
func cp(kids ...*nd) *nd            { return &nd{n: nComp, kids: kids} }
func gr(tag string, kids ...*nd) *nd { return &nd{n: nGroup, tag: tag, kids: kids} }

type shape struct {
	hdr, body, trl []*nd
	bs, mt         string
}

// field is one expected wire field (oracle side).
type field struct {
	tag string
	val []byte
}

// ---- template catalogue ----

const nTemplates = 22

func template(k int) shape {
	s := shape{bs: "FIX.4.4", mt: "D"}
	switch k {
	case 0: // everything empty
	case 1:
		s.hdr = []*nd{lf("34", kInt)}
		s.body = []*nd{lf("11", kStr), lf("55", kStr)}
	case 2: // every leaf type
		s.hdr = []*nd{lf("49", kStr), lf("56", kStr), lf("34", kInt)}
		s.body = []*nd{lf("1", kStr), lf("2", kInt), lf("3", kUint), lf("4", kFloat), lf("5", kTime), lf("6", kBool), lf("7", kRaw)}
	case 3: // component in body
		s.hdr = []*nd{lf("34", kInt)}
		s.body = []*nd{cp(lf("21", kStr), lf("22", kInt)), lf("23", kStr)}
	case 4: // flat group
		s.hdr = []*nd{lf("34", kInt)}
		s.body = []*nd{gr("146", lf("55", kStr), lf("65", kStr), lf("48", kInt)), lf("58", kStr)}
	case 5: // group nested in a group entry
		s.body = []*nd{gr("146", lf("55", kStr), gr("711", lf("311", kStr), lf("312", kInt))), lf("58", kStr)}
	case 6: // component nested in a group entry
		s.body = []*nd{gr("146", lf("55", kStr), cp(lf("460", kInt), lf("461", kStr)))}
	case 7: // group nested in a component
		s.body = []*nd{cp(gr("453", lf("448", kStr), lf("447", kStr)), lf("58", kStr))}
	case 8: // group in the header (as the generated Header has)
		s.hdr = []*nd{lf("34", kInt), gr("627", lf("628", kStr), lf("629", kStr))}
		s.body = []*nd{lf("112", kStr)}
	case 9: // populated trailer
		s.hdr = []*nd{lf("34", kInt)}
		s.body = []*nd{lf("58", kStr)}
		s.trl = []*nd{lf("93", kInt), lf("89", kStr)}
	case 10: // header only
		s.hdr = []*nd{lf("49", kStr), lf("34", kInt)}
	case 11: // body only, bool + typed members inside a group entry
		s.body = []*nd{gr("268", lf("269", kStr), lf("270", kFloat), lf("271", kUint), lf("272", kBool), lf("273", kTime)), lf("10000", kStr)}
	case 12: // two groups in sequence, second-level component with a group inside an entry
		s.mt = "AE"
		s.body = []*nd{gr("78", lf("79", kStr), lf("80", kInt)), gr("555", lf("600", kStr), cp(gr("604", lf("605", kStr), lf("606", kStr))))}
	case 13: // depth 3: group in group in group
		s.body = []*nd{gr("1", lf("2", kStr), gr("3", lf("4", kStr), gr("5", lf("6", kStr), lf("7", kInt))))}
	// ---- small-tag templates for the arbitrary-input checks (C11) ----
	case 14: // flat + group
		s.bs = "F"
		s.hdr = []*nd{lf("4", kInt)}
		s.body = []*nd{lf("5", kStr), gr("6", lf("7", kStr), lf("3", kStr))}
	case 15: // group in group
		s.bs = "F"
		s.body = []*nd{gr("2", lf("3", kStr), gr("4", lf("5", kStr), lf("6", kInt))), lf("7", kStr)}
	case 16: // component in group, group in component
		s.bs = "F"
		s.body = []*nd{gr("2", lf("3", kStr), cp(lf("4", kInt), lf("5", kStr))), cp(gr("6", lf("7", kStr)))}
	// ---- adversarial tag sets (C18) ----
	case 17: // tags that extend / truncate the group count tag; free text before, inside and after the group
		s.hdr = []*nd{lf("34", kInt)}
		s.body = []*nd{lf("1146", kStr), lf("46", kStr), lf("14", kStr), gr("146", lf("55", kStr), lf("65", kStr)), lf("58", kStr)}
	case 18: // tags around MsgType / MsgSeqNum / CheckSum
		s.hdr = []*nd{lf("134", kStr), lf("34", kInt), lf("4", kStr)}
		s.body = []*nd{lf("135", kStr), lf("5", kStr), lf("110", kStr), lf("0", kStr), lf("58", kStr)}
	case 19: // tags around the first member of a group
		s.body = []*nd{lf("25", kStr), gr("146", lf("55", kStr), lf("155", kStr), lf("5", kStr), lf("65", kStr)), lf("255", kStr)}
	case 20: // nested group whose count tag is a suffix of an outer member's tag
		s.body = []*nd{gr("146", lf("55", kStr), lf("1711", kStr), gr("711", lf("311", kStr), lf("11", kStr))), lf("58", kStr)}
	case 21: // group count tag that is a suffix of a preceding plain tag, group absent or present
		s.body = []*nd{lf("2146", kStr), gr("146", lf("55", kStr)), lf("9146", kStr)}
	case 22: // every value type behind 1-digit tags, also inside a group entry (arbitrary-input checks)
		s.bs = "F"
		s.hdr = []*nd{lf("4", kBool)}
		s.body = []*nd{lf("5", kUint), lf("6", kFloat), lf("7", kTime), lf("2", kRaw), gr("3", lf("1", kBool), lf("0", kInt))}
	}
	return s
}

// ---- instantiation of the library template ----

func emptyValue(k int) fix.Value {
	switch k {
	case kStr:
		return &fix.String{}
	case kInt:
		return &fix.Int{}
	case kUint:
		return &fix.Uint{}
	case kFloat:
		return &fix.Float{}
	case kTime:
		return &fix.Time{}
	case kBool:
		return &fix.Bool{}
	}
	return &fix.Raw{}
}

func buildItem(d *nd) fix.Item {
	switch d.n {
	case nLeaf:
		return fix.NewKeyValue(d.tag, emptyValue(d.k))
	case nComp:
		return fix.NewComponent(buildItems(d.kids)...)
	}
	return fix.NewGroup(d.tag, buildItems(d.kids)...)
}

func buildItems(ds []*nd) []fix.Item {
	r := make([]fix.Item, len(ds))
	for i, d := range ds {
		r[i] = buildItem(d)
	}
	return r
}

func buildMessage(s shape) *fix.Message {
	return fix.NewMessage("8", "9", "10", "35", s.bs, s.mt).
		SetHeader(fix.NewComponent(buildItems(s.hdr)...)).
		SetBody(buildItems(s.body)...).
		SetTrailer(fix.NewComponent(buildItems(s.trl)...))
}

// ---- population ----

// popCtl drives a population deterministically from the job parameters.
type popCtl struct {
	mask   int // bit i: i-th leaf slot (in walk order) populated
	slot   int
	cnt    [3]int // entries per group by nesting depth
	lenSel int    // value length selector
	route  int    // 0: Set on the template value; 1: replace by constructor value; 2: FromBytes
	strict bool   // population errors are violations (C17, C02)
	first  bool   // force the first member of every entry to be populated (C02 precondition)
	vals   []tv   // typed values drawn, in walk order (for C02 comparison)
}

type tv struct {
	k   int
	s   string
	i   int
	u   uint64
	f   float64
	t   time.Time
	b   bool
	raw []byte
}

func (p *popCtl) nextLen() int {
	l := 1
	switch p.lenSel {
	case 0:
		l = 1
	case 1:
		l = 1 + p.slot%3
	case 2:
		l = 3 - p.slot%3
	case 3:
		l = 3
	case 4:
		l = 2 + p.slot%4
	case 5:
		l = 6
	case 9:
		l = 2
	}
	return l
}

func (p *popCtl) take() bool {
	b := p.mask&(1<<uint(p.slot%30)) != 0
	p.slot++
	return b
}

// drawValue draws a symbolic value of kind k and returns its canonical wire text.
func (p *popCtl) drawValue(k int) (tv, []byte) {
	v := tv{k: k}
	if p.route == 3 { // concrete values (used where only the structure matters)
		c := byte('A' + p.slot%26)
		switch k {
		case kStr:
			v.s = string([]byte{c})
			return v, []byte{c}
		case kRaw:
			v.raw = []byte{c}
			return v, []byte{c}
		case kInt:
			v.i = 1 + p.slot%9
			return v, []byte(strconv.Itoa(v.i))
		case kUint:
			v.u = uint64(1 + p.slot%9)
			return v, []byte(strconv.FormatUint(v.u, 10))
		case kBool:
			v.b = p.slot%2 == 0
			if v.b {
				return v, []byte("Y")
			}
			return v, []byte("N")
		}
	}
	switch k {
	case kStr:
		b := zz.Bytes(p.nextLen())
		v.s = string(b)
		return v, b
	case kRaw:
		b := zz.Bytes(p.nextLen())
		v.raw = b
		return v, b
	case kInt:
		// one sign/digit-count class per draw (classes rotate with lenSel and slot); lenSel 9: extremes
		if p.lenSel == 9 {
			if p.slot%2 == 0 {
				v.i = -9223372036854775808
			} else {
				v.i = 9223372036854775807
			}
			return v, []byte(strconv.Itoa(v.i))
		}
		n := p.nextLen()
		if n > 5 {
			n = 5
		}
		lo, hi := pow10i(n-1), pow10i(n)-1
		if n == 1 {
			lo = 0
		}
		if (p.slot+p.lenSel)%3 == 0 && n > 0 {
			lo, hi = -hi, -lo
			if n == 1 {
				hi = -1
			}
		}
		v.i = zz.IntIn(lo, hi)
		return v, []byte(strconv.Itoa(v.i))
	case kUint:
		if p.lenSel == 9 {
			v.u = 18446744073709551615
			return v, []byte(strconv.FormatUint(v.u, 10))
		}
		n := p.nextLen()
		if n > 5 {
			n = 5
		}
		lo, hi := pow10i(n-1), pow10i(n)-1
		if n == 1 {
			lo = 0
		}
		u := zz.Uint64()
		zz.Assume(u >= uint64(lo))
		zz.Assume(u <= uint64(hi))
		v.u = u
		return v, []byte(strconv.FormatUint(u, 10))
	case kFloat:
		v.f = zz.Float()
		return v, []byte(strconv.FormatFloat(v.f, 'f', -1, 64))
	case kTime:
		v.t = zz.TimeMs()
		return v, []byte(v.t.Format(fix.TimeLayout))
	case kBool:
		v.b = zz.Bool()
		if v.b {
			return v, []byte("Y")
		}
		return v, []byte("N")
	}
	panic("kind")
}

func pow10i(n int) int {
	r := 1
	for i := 0; i < n; i++ {
		r *= 10
	}
	return r
}

func (v tv) goValue() interface{} {
	switch v.k {
	case kStr:
		return v.s
	case kInt:
		return v.i
	case kUint:
		return v.u
	case kFloat:
		return v.f
	case kTime:
		return v.t
	case kBool:
		return v.b
	}
	return v.raw
}

func (v tv) ctorValue() fix.Value {
	switch v.k {
	case kStr:
		return fix.NewString(v.s)
	case kInt:
		return fix.NewInt(v.i)
	case kUint:
		return fix.NewUint(v.u)
	case kFloat:
		return fix.NewFloat(v.f)
	case kTime:
		return fix.NewTime(v.t)
	case kRaw:
		return fix.NewRaw(v.raw)
	}
	b := &fix.Bool{}
	_ = b.Set(v.b)
	return b
}

// setLeaf populates one KeyValue through the selected route and returns the error, if any.
func (p *popCtl) setLeaf(kv *fix.KeyValue, v tv, text []byte) error {
	switch p.route {
	case 3:
		return kv.Value.Set(v.goValue())
	case 1:
		kv.Set(v.ctorValue())
		return nil
	case 2:
		return kv.FromBytes(text)
	}
	return kv.Value.Set(v.goValue())
}

// populate fills items (built from ds) and appends the expected wire fields to *exp.
func (p *popCtl) populate(ds []*nd, items []fix.Item, depth int, exp *[]field, forceFirst bool, eidx int) {
	for i, d := range ds {
		switch d.n {
		case nLeaf:
			pop := p.take()
			if forceFirst && i == 0 {
				pop = true
			}
			if !pop {
				continue
			}
			v, text := p.drawValue(d.k)
			p.vals = append(p.vals, v)
			err := p.setLeaf(items[i].(*fix.KeyValue), v, text)
			if p.strict {
				zz.Assert(err == nil, "populating a field through a public route must not fail: tag "+d.tag)
			} else if err != nil {
				continue
			}
			*exp = append(*exp, field{d.tag, text})
		case nComp:
			p.populate(d.kids, items[i].(*fix.Component).Items(), depth, exp, false, eidx)
		case nGroup:
			g := items[i].(*fix.Group)
			n := innerCount(p.cnt[depth%3], depth, eidx)
			// the count field gives the number of entries that carry at least one field
			var sub []field
			nonEmpty := 0
			for e := 0; e < n; e++ {
				entry := g.AsTemplate()
				var ef []field
				p.populate(d.kids, entry, depth+1, &ef, p.first, e)
				g.AddEntry(entry)
				if len(ef) > 0 {
					nonEmpty++
					sub = append(sub, ef...)
				}
			}
			if nonEmpty > 0 {
				*exp = append(*exp, field{d.tag, []byte(strconv.Itoa(nonEmpty))})
				*exp = append(*exp, sub...)
			}
		}
	}
}

// innerCount: nested groups get different entry counts in different outer entries (odd outer
// entries have one entry less), so that a count read from the wrong place is visible.
func innerCount(n, depth, eidx int) int {
	if depth >= 1 && n >= 2 && eidx%2 == 1 {
		return n - 1
	}
	return n
}

func (p *popCtl) populateMessage(s shape, m *fix.Message) []field {
	var exp []field
	p.populate(s.hdr, m.Header().Items(), 0, &exp, false, 0)
	p.populate(s.body, m.Body(), 0, &exp, false, 0)
	p.populate(s.trl, m.Trailer().Items(), 0, &exp, false, 0)
	return exp
}

func ctlFromParams(base int) *popCtl {
	return &popCtl{
		mask:   zz.Param(base),
		cnt:    [3]int{zz.Param(base + 1), zz.Param(base + 2), zz.Param(base + 3)},
		lenSel: zz.Param(base + 4),
		route:  zz.Param(base + 5),
	}
}

// ---- independent oracles ----

// expectedWire builds the full expected message from the field list: framing + fields.
func expectedWire(s shape, exp []field) []byte {
	var mid []byte
	mid = append(mid, "35="...)
	mid = append(mid, s.mt...)
	mid = append(mid, 1)
	for _, f := range exp {
		mid = append(mid, f.tag...)
		mid = append(mid, '=')
		mid = append(mid, f.val...)
		mid = append(mid, 1)
	}
	var out []byte
	out = append(out, "8="...)
	out = append(out, s.bs...)
	out = append(out, 1)
	out = append(out, "9="...)
	out = append(out, strconv.Itoa(len(mid))...)
	out = append(out, 1)
	out = append(out, mid...)
	sum := 0
	for _, b := range out {
		sum += int(b)
	}
	sum %= 256
	out = append(out, '1', '0', '=', byte('0'+sum/100), byte('0'+sum/10%10), byte('0'+sum%10), 1)
	return out
}

// frameOK checks the C01 framing facts on raw output, independent of the field oracle.
// tags are the four framing tags as text.
func frameOK(out []byte, t8, t9, t35, t10 string, bs, mt []byte) bool {
	pre := append(append([]byte(t8), '='), bs...)
	pre = append(pre, 1)
	pre = append(append(pre, t9...), '=')
	if len(out) < len(pre)+1 {
		return false
	}
	ok := zz.EqBytes(out[:len(pre)], pre)
	// BodyLength digits run up to the next SOH; lengths are concrete so try each digit count
	tail := len(t10) + 1 + 3 + 1 // "10=ddd" SOH
	if len(out) < len(pre)+2+tail {
		return false
	}
	res := false
	for nd := 1; nd <= 4 && len(pre)+nd+1+tail <= len(out); nd++ {
		bodyStart := len(pre) + nd + 1
		bodyLen := len(out) - bodyStart - tail
		if bodyLen < 0 {
			break
		}
		want := strconv.Itoa(bodyLen)
		if len(want) != nd {
			continue
		}
		c := zz.And(zz.EqBytes(out[len(pre):len(pre)+nd], []byte(want)), out[len(pre)+nd] == 1)
		// MsgType follows
		mtf := append(append(append([]byte(t35), '='), mt...), 1)
		if bodyStart+len(mtf) > len(out)-tail {
			c = false
		} else {
			c = zz.And(c, zz.EqBytes(out[bodyStart:bodyStart+len(mtf)], mtf))
		}
		res = zz.Or(res, c)
	}
	ok = zz.And(ok, res)
	// trailer: SOH before "10=", three digits, SOH
	n := len(out)
	csf := append([]byte(t10), '=')
	ok = zz.And(ok, out[n-tail-1] == 1)
	ok = zz.And(ok, zz.EqBytes(out[n-tail:n-tail+len(csf)], csf))
	ok = zz.And(ok, out[n-1] == 1)
	sum := 0
	for _, b := range out[:n-tail] {
		sum += int(b)
	}
	sum %= 256
	ok = zz.And(ok, out[n-4] == byte('0'+sum/100))
	ok = zz.And(ok, out[n-3] == byte('0'+sum/10%10))
	ok = zz.And(ok, out[n-2] == byte('0'+sum%10))
	return ok
}

// shapeClass names the (template, route, entry counts) class of the current job: used to keep
// distinct counterexamples apart and to key known findings.
func shapeClass() string {
	return "tmpl=" + strconv.Itoa(zz.Param(0)) + "/route=" + strconv.Itoa(zz.Param(6)) + "/cnt=" + strconv.Itoa(zz.Param(2)) + "," + strconv.Itoa(zz.Param(3)) + "," + strconv.Itoa(zz.Param(4))
}
