package encoding

import (
	"time"

	"github.com/b2broker/simplefix-go/fix"
	zz "github.com/b2broker/simplefix-go/zzverif"
)

// cmpCtl walks a parsed message in parallel with the shape description and the drawn values.
type cmpCtl struct {
	p    *popCtl // replays the population decisions (mask/slot/cnt), never draws
	vals []tv
	vi   int
}

func sameTyped(v fix.Value, want tv) bool {
	switch want.k {
	case kStr:
		x, ok := v.Value().(string)
		return ok && x == want.s
	case kInt:
		x, ok := v.Value().(int)
		return ok && x == want.i
	case kUint:
		x, ok := v.Value().(uint64)
		return ok && x == want.u
	case kFloat:
		x, ok := v.Value().(float64)
		return ok && x == want.f
	case kTime:
		x, ok := v.Value().(time.Time)
		return ok && x.Equal(want.t)
	case kBool:
		x, ok := v.Value().(bool)
		return ok && x == want.b
	}
	x, ok := v.Value().([]byte)
	return ok && zz.EqBytes(x, want.raw)
}

func (c *cmpCtl) compare(ds []*nd, items []fix.Item, depth int, forceFirst bool, eidx int) {
	for i, d := range ds {
		switch d.n {
		case nLeaf:
			pop := c.p.take()
			if forceFirst && i == 0 {
				pop = true
			}
			kv := items[i].(*fix.KeyValue)
			if !pop {
				zz.Assert(kv.Value.IsNull(), "C02: a field that was not populated is populated after parsing: tag "+d.tag)
				continue
			}
			want := c.vals[c.vi]
			c.vi++
			zz.Assert(!kv.Value.IsNull(), "C02: populated field is null after parsing: tag "+d.tag)
			zz.Assert(sameTyped(kv.Value, want), "C02: parsed value (or its Go type) differs from the serialized one: tag "+d.tag)
		case nComp:
			c.compare(d.kids, items[i].(*fix.Component).Items(), depth, false, eidx)
		case nGroup:
			g := items[i].(*fix.Group)
			n := innerCount(c.p.cnt[depth%3], depth, eidx)
			zz.Assert(len(g.Entries()) == n, "C02: number of group entries differs after parsing: group "+d.tag)
			for e := 0; e < n; e++ {
				c.compare(d.kids, g.Entries()[e], depth+1, c.p.first, e)
			}
		}
	}
}

// H_C02_roundtrip: serialize a populated shape, parse into an empty message of the same type,
// compare every value (typed), every group (count, order), and the re-serialization.
// params: [template, mask, cnt0, cnt1, cnt2, lenSel, route, strict]
func H_C02_roundtrip() {
	zz.Class(shapeClass())
	s := template(zz.Param(0))
	m := buildMessage(s)
	p := ctlFromParams(1)
	p.strict = true
	p.first = true
	p.populateMessage(s, m)
	b, err := m.ToBytes()
	zz.Assert(err == nil, "C02: ToBytes returned an error")
	orig := append([]byte{}, b...)
	u := buildMessage(s)
	un := DefaultUnmarshaller{Strict: zz.Param(7) == 0, Validator: DefaultValidator{}}
	err = un.Unmarshal(u, b)
	zz.Reach("parsed")
	zz.Assert(err == nil, "C02: parsing the library's own serialization returns an error")
	zz.Assert(zz.EqBytes(b, orig), "C02: parsing modified the input bytes")
	c := &cmpCtl{p: ctlFromParams(1), vals: p.vals}
	c.p.first = true
	c.compare(s.hdr, u.Header().Items(), 0, false, 0)
	c.compare(s.body, u.Body(), 0, false, 0)
	c.compare(s.trl, u.Trailer().Items(), 0, false, 0)
	zz.Assert(u.MsgType() == s.mt, "C02: MsgType differs after parsing")
	b2, err2 := u.ToBytes()
	zz.Assert(err2 == nil, "C02: re-serialization returned an error")
	zz.Assert(len(b2) == len(orig), "C02: re-serialization has a different length")
	zz.Assert(zz.EqBytes(b2, orig), "C02: re-serialization differs from the original bytes")
	zz.Observe("rt", b2)
}
