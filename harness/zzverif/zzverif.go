// Package zzverif is the harness API. Under the symbolic engine every primitive below is
// intercepted (the bodies are never executed); compiled natively the same harness replays one
// concrete vector (VERIF_VECTOR = comma-separated ND draws, VERIF_PARAMS = comma-separated ints)
// against the real build.
package zzverif

import (
	"runtime"
	"sync/atomic"
	"encoding/hex"
	"fmt"
	"math"
	"os"
	"strconv"
	"strings"
	"time"
)

var vector []uint64
var params []int
var pos int
var loaded bool

func load() {
	if loaded {
		return
	}
	loaded = true
	for _, x := range strings.Split(os.Getenv("VERIF_VECTOR"), ",") {
		if x == "" {
			continue
		}
		u, err := strconv.ParseUint(x, 10, 64)
		if err != nil {
			panic("bad VERIF_VECTOR")
		}
		vector = append(vector, u)
	}
	for _, x := range strings.Split(os.Getenv("VERIF_PARAMS"), ",") {
		if x == "" {
			continue
		}
		n, err := strconv.Atoi(x)
		if err != nil {
			panic("bad VERIF_PARAMS")
		}
		params = append(params, n)
	}
}

func next() uint64 {
	load()
	if pos >= len(vector) {
		pos++
		return 0
	}
	v := vector[pos]
	pos++
	return v
}

// ---- primitives (engine intrinsics) ----

func Param(i int) int {
	load()
	if i < 0 || i >= len(params) {
		return 0
	}
	return params[i]
}
func NParams() int    { load(); return len(params) }
func Byte() byte      { return byte(next()) }
func Bool() bool      { return next() != 0 }
func Int() int        { return int(next()) }
func Uint64() uint64  { return next() }
func Float() float64  { return math.Float64frombits(next()) }
func Symbolic() bool  { return false }

// Outcome reporting for native replays: lines on stdout parsed by the driver.
func Assume(c bool) {
	if !c {
		fmt.Println("VERIF-REPLAY: assume-failed")
		os.Exit(0)
	}
}
func Assert(c bool, msg string) {
	if !c {
		fmt.Println("VERIF-REPLAY: ASSERT-FAILED " + msg)
		os.Exit(1)
	}
}
func And(a, b bool) bool     { return a && b }
func Or(a, b bool) bool      { return a || b }
func Not(a bool) bool        { return !a }
func Implies(a, b bool) bool { return !a || b }
func EqBytes(a, b []byte) bool {
	return string(a) == string(b)
}
func EqStr(a, b string) bool { return a == b }
func IteInt(c bool, a, b int) int {
	if c {
		return a
	}
	return b
}
func IteByte(c bool, a, b byte) byte {
	if c {
		return a
	}
	return b
}
func Reach(tag string) {}
func Note(s string)    {}
func Class(s string)   {}
func Concrete(x int) int { return x }
func Panics(f func()) (p bool) {
	defer func() {
		if r := recover(); r != nil {
			p = true
		}
	}()
	f()
	return false
}
func Observe(tag string, data []byte) {
	fmt.Println("VERIF-OBSERVE: " + tag + " " + hex.EncodeToString(data))
}

// scheduling / time (native approximations; harnesses that depend on them are replayed in the engine)
func Yield()                        { time.Sleep(20 * time.Millisecond) }
func ClockSymbolic(on bool)         {}
func LastNow() int64                { return 0 }
func NowCount() int                 { return 0 }
func TickBudget(n int)              {}
func OpaqueLen(n int)               {}
// Goroutines natively: goroutines that have a frame of the library (and none of the test or the
// harness) on their stack, after a settling time of up to 2 s.
func Goroutines() int {
	n := 0
	for i := 0; i < 100; i++ {
		buf := make([]byte, 1<<20)
		buf = buf[:runtime.Stack(buf, true)]
		n = 0
		for _, g := range strings.Split(string(buf), "\n\n") {
			if strings.Contains(g, "simplefix-go") && !strings.Contains(g, "testing.tRunner") && !strings.Contains(g, "zzverif.") && !strings.Contains(g, ".H_") {
				n++
			}
		}
		if n == 0 {
			return 0
		}
		time.Sleep(20 * time.Millisecond)
	}
	return n
}
func Spawned() int                  { return runtime.NumGoroutine() }
func AfterFuncs() int               { return 0 }
func AfterFuncDelay(i int) int64    { return 0 }
func AfterFuncStopped(i int) bool   { return false }
func AfterFuncFire(i int)           {}
func ExploreSchedules(on bool)      {}
// Go starts a goroutine that WaitAll waits for.
func Go(f func()) {
	atomic.AddInt64(&goCount, 1)
	go func() {
		defer atomic.AddInt64(&goCount, -1)
		f()
	}()
}

var goCount int64

// WaitAll waits until every goroutine started with Go has finished. Natively a goroutine that is
// still running after 5 s is reported like the engine reports a deadlock.
func WaitAll() {
	for i := 0; i < 500; i++ {
		if atomic.LoadInt64(&goCount) == 0 {
			return
		}
		time.Sleep(10 * time.Millisecond)
	}
	fmt.Println("VERIF-REPLAY: ASSERT-FAILED deadlock: a goroutine is still blocked 5s after the connection ended")
	os.Exit(1)
}
func Role(r string)                 {}
func TimeOf(t time.Time) int64      { return t.UnixNano() }

// ---- helpers executed as ordinary code (by the engine too) ----

// Bytes returns n fresh bytes, none equal to SOH.
func Bytes(n int) []byte {
	b := make([]byte, n)
	for i := range b {
		x := Byte()
		Assume(x != 1)
		b[i] = x
	}
	return b
}

// RawBytes returns n completely unconstrained bytes with cap == len.
func RawBytes(n int) []byte {
	b := make([]byte, n)
	for i := range b {
		b[i] = Byte()
	}
	return b
}

// Digits returns n fresh ASCII digits.
func Digits(n int) []byte {
	b := make([]byte, n)
	for i := range b {
		x := Byte()
		Assume(x >= '0')
		Assume(x <= '9')
		b[i] = x
	}
	return b
}

// IntIn returns a fresh int in [lo, hi].
func IntIn(lo, hi int) int {
	x := Int()
	Assume(x >= lo)
	Assume(x <= hi)
	return x
}

// TimeMs returns a fresh UTC instant at millisecond precision (years 1970..2100).
func TimeMs() time.Time {
	ms := int64(next() % 4102444800000)
	return time.UnixMilli(ms).UTC()
}

// harness-driven timers / tickers (engine only; harnesses using them are replayed in the engine)
func TimerStub(on bool)                   {}
func Timers() int                         { return 0 }
func TimerField(i int, name string) int64 { return 0 }
func FireTimer(i int)                     {}
func TimerWaiting(i int) bool             { return false }
func Tick()                               {}
func NowAt(i int) int64                   { return 0 }
func Done(i int) bool                     { return false }

// WaitAll2 waits until every goroutine except the first `parked` spawned ones has finished and those
// are blocked again (engine); natively it just sleeps.
func WaitAll2(parked int) { time.Sleep(200 * time.Millisecond) }

// PreemptionBound sets the maximum number of preemptive context switches explored per schedule.
func PreemptionBound(k int) {}

// timed waits armed by the code under test (time.NewTicker / NewTimer / Reset / After), engine only
func ArmedWaits() int          { return 0 }
func ArmInstant(i int) int64   { return 0 }
func ArmDuration(i int) int64  { return 0 }
func ArmIsTicker(i int) bool   { return true }

// CoarseSchedules restricts schedule exploration to channel / select / cancel / go switch points.
func CoarseSchedules(on bool) {}

// PickRotation sets the offset of the deterministic choice made when the running goroutine blocks.
func PickRotation(k int) {}
