package simplefixgo

// Test-only accessors for the step harnesses (injected by overlay, never committed to the repo).

// VerifServe dispatches one inbound message exactly as DefaultHandler.Run does per message.
func (h *DefaultHandler) VerifServe(msg []byte) error { return h.serve(msg) }

// VerifOut drains the outbound queue without blocking.
func (h *DefaultHandler) VerifOut() [][]byte {
	var r [][]byte
	for {
		select {
		case m := <-h.out:
			r = append(r, m)
		default:
			return r
		}
	}
}

// VerifStopped reports whether the handler context has been cancelled.
func (h *DefaultHandler) VerifStopped() bool {
	select {
	case <-h.ctx.Done():
		return true
	default:
		return false
	}
}
