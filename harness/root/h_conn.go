package simplefixgo

import (
	"context"
	"errors"
	"io"
	"net"
	"strconv"
	"time"

	zz "github.com/b2broker/simplefix-go/zzverif"
)

// scriptConn is an in-memory net.Conn: Read hands out `data` in chunks whose sizes come from
// `cuts` (then everything that is left), Write records every call.
// timeoutErr is what a socket returns when a deadline expires.
type timeoutErr struct{}

func (timeoutErr) Error() string   { return "i/o timeout" }
func (timeoutErr) Timeout() bool   { return true }
func (timeoutErr) Temporary() bool { return true }

type scriptConn struct {
	data     []byte
	cuts     []int
	k        int
	writes   [][]byte
	deadline []time.Time
	closed   bool
	failAt   int // Write call (1-based) that fails; 0 never
	gate     chan struct{} // if non-nil, end of stream is reported only after the gate is closed
	endErr   error         // error reported at the end of the stream (default io.EOF)
	failMode int           // how the failing Write fails: 0 error; 1 partial write (10 bytes) + timeout, later writes succeed; 2 every write from failAt on times out
	pauseAt  []int         // stream offsets at which the peer pauses: a Read with an armed deadline times out once there
	consumed int
	rdArmed  bool
	wire     []byte        // bytes the socket accepted, in order
}

func (s *scriptConn) Read(p []byte) (int, error) {
	if len(s.data) == 0 {
		if s.gate != nil {
			<-s.gate
		}
		if s.closed {
			return 0, errors.New("read: use of closed network connection")
		}
		if s.endErr != nil {
			return 0, s.endErr
		}
		return 0, io.EOF
	}
	for i, at := range s.pauseAt {
		if at == s.consumed {
			s.pauseAt = append(s.pauseAt[:i:i], s.pauseAt[i+1:]...)
			if s.rdArmed {
				return 0, timeoutErr{} // the peer is silent for longer than the read deadline
			}
			break
		}
	}
	n := len(s.data)
	if s.k < len(s.cuts) && s.cuts[s.k] < n && s.cuts[s.k] > 0 {
		n = s.cuts[s.k]
	}
	for _, at := range s.pauseAt {
		if at > s.consumed && at-s.consumed < n {
			n = at - s.consumed // a pause splits the chunk
		}
	}
	s.k++
	if n > len(p) {
		n = len(p)
	}
	copy(p, s.data[:n])
	s.data = s.data[n:]
	s.consumed += n
	return n, nil
}
func (s *scriptConn) Write(p []byte) (int, error) {
	s.writes = append(s.writes, append([]byte{}, p...))
	if s.failAt != 0 && len(s.writes) >= s.failAt {
		switch s.failMode {
		case 0:
			if len(s.writes) == s.failAt {
				return 0, errors.New("write failed")
			}
		case 1:
			if len(s.writes) == s.failAt {
				n := 10
				if n > len(p) {
					n = len(p)
				}
				s.wire = append(s.wire, p[:n]...)
				return n, timeoutErr{}
			}
		case 2:
			return 0, timeoutErr{}
		}
	}
	s.wire = append(s.wire, p...)
	return len(p), nil
}
// release lets the scripted stream end (idempotent).
func (s *scriptConn) release() {
	if s.gate != nil {
		select {
		case <-s.gate:
		default:
			close(s.gate)
		}
	}
}

// Close marks the connection closed and, like a real socket, unblocks a pending Read.
func (s *scriptConn) Close() error {
	if s.closed {
		return errors.New("close: use of closed network connection")
	}
	s.closed = true
	if s.gate != nil {
		select {
		case <-s.gate:
		default:
			close(s.gate)
		}
	}
	return nil
}
func (s *scriptConn) LocalAddr() net.Addr                { return nil }
func (s *scriptConn) RemoteAddr() net.Addr               { return nil }
func (s *scriptConn) SetDeadline(t time.Time) error      { return nil }
func (s *scriptConn) SetReadDeadline(t time.Time) error  { s.rdArmed = !t.IsZero(); return nil }
func (s *scriptConn) SetWriteDeadline(t time.Time) error { s.deadline = append(s.deadline, t); return nil }

// tinyMsg builds a well-formed message 8=F|9=..|35=<t>|58=<v>|10=ccc| with symbolic type and value.
func tinyMsg(t byte, v []byte) []byte {
	mid := []byte{'3', '5', '=', t, 1, '5', '8', '='}
	mid = append(mid, v...)
	mid = append(mid, 1)
	out := append([]byte("8=F\x019="), strconv.Itoa(len(mid))...)
	out = append(out, 1)
	out = append(out, mid...)
	sum := 0
	for _, c := range out {
		sum += int(c)
	}
	sum %= 256
	out = append(out, '1', '0', '=', byte('0'+sum/100), byte('0'+sum/10%10), byte('0'+sum%10), 1)
	return out
}

// messagesFor builds the scripted message sequence of a scenario.
// 0: three tiny messages, symbolic values; 1: values fixed to "10=" text; 2: a 5000-byte first message
// followed by two small ones; 3: one message; 4: values around the CheckSum tag (110=, x10=)
func messagesFor(scn int) [][]byte {
	switch scn {
	case 1:
		return [][]byte{tinyMsg('D', []byte("10=")), tinyMsg('0', []byte("a10=000")), tinyMsg('1', []byte("10"))}
	case 2:
		big := make([]byte, 5000)
		for i := range big {
			big[i] = byte('a' + i%26)
		}
		copy(big, zz.Bytes(3))
		return [][]byte{tinyMsg('D', big), tinyMsg(zz.Bytes(1)[0], zz.Bytes(2)), tinyMsg('0', zz.Bytes(1))}
	case 3:
		return [][]byte{tinyMsg(zz.Bytes(1)[0], zz.Bytes(4))}
	case 4:
		m := tinyMsg('D', []byte("x"))
		// insert a field 110=100 (tag ending in the CheckSum tag, three-character value) - framing recomputed by hand
		mid := []byte("35=D\x01110=100\x0158=")
		mid = append(mid, zz.Bytes(3)...)
		mid = append(mid, 1)
		out := append([]byte("8=F\x019="), strconv.Itoa(len(mid))...)
		out = append(out, 1)
		out = append(out, mid...)
		sum := 0
		for _, c := range out {
			sum += int(c)
		}
		sum %= 256
		out = append(out, '1', '0', '=', byte('0'+sum/100), byte('0'+sum/10%10), byte('0'+sum%10), 1)
		return [][]byte{out, m}
	case 5:
		// C18: tags that have the CheckSum tag as decimal suffix (210, 1010) or prefix (101, 100),
		// each with unconstrained value bytes (the solver may place "10=" inside them), in front of
		// a second ordinary message; the genuine trailer is the only segment that starts with "10="
		mid := []byte("35=D\x01210=")
		mid = append(mid, zz.Bytes(3)...)
		mid = append(mid, []byte("\x01101=")...)
		mid = append(mid, zz.Bytes(3)...)
		mid = append(mid, []byte("\x011010=")...)
		mid = append(mid, zz.Bytes(4)...)
		mid = append(mid, []byte("\x01100=10=\x01")...)
		return [][]byte{frameByHand(mid), tinyMsg('0', zz.Bytes(3))}
	}
	return [][]byte{tinyMsg(zz.Bytes(1)[0], zz.Bytes(3)), tinyMsg(zz.Bytes(1)[0], zz.Bytes(2)), tinyMsg(zz.Bytes(1)[0], zz.Bytes(3))}
}

// frameByHand puts BeginString/BodyLength in front of a body and the three-digit CheckSum behind it.
func frameByHand(mid []byte) []byte {
	out := append([]byte("8=F\x019="), strconv.Itoa(len(mid))...)
	out = append(out, 1)
	out = append(out, mid...)
	sum := 0
	for _, c := range out {
		sum += int(c)
	}
	sum %= 256
	return append(out, '1', '0', '=', byte('0'+sum/100), byte('0'+sum/10%10), byte('0'+sum%10), 1)
}

// H_C04_reader: Conn.runReader over the real bufio.Reader on a scripted connection.
// params: [scenario, cutMode, c1, c2, c3, bufSize, partial]
// cutMode 0: chunk sizes c1,c2,c3 then the rest; 1: one byte per read; 2: everything in one read
func H_C04_reader() {
	scn := zz.Param(0)
	zz.Class("scenario=" + strconv.Itoa(scn) + "/cut=" + strconv.Itoa(zz.Param(1)))
	msgs := messagesFor(scn)
	var stream []byte
	for _, m := range msgs {
		stream = append(stream, m...)
	}
	if zz.Param(6) > 0 {
		// a trailing partial message: must not be delivered
		p := msgs[0]
		n := zz.Param(6)
		if n >= len(p) {
			n = len(p) - 1
		}
		stream = append(stream, p[:n]...)
	}
	sc := &scriptConn{data: stream}
	switch zz.Param(1) {
	case 0:
		sc.cuts = []int{zz.Param(2), zz.Param(3), zz.Param(4)}
	case 1:
		sc.cuts = make([]int, len(stream))
		for i := range sc.cuts {
			sc.cuts[i] = 1
		}
	}
	if p := zz.Param(7); p > 0 {
		// the peer pauses (longer than any read deadline the library may have armed) inside a field
		sc.pauseAt = []int{p, p + 17}
	}
	buf := zz.Param(5)
	cn := NewConn(context.Background(), sc, buf, time.Second)
	var got [][]byte
	if buf < len(msgs) {
		// small or zero buffer: a consumer goroutine drains the channel, keeping what it was given
		zz.Go(func() {
			for m := range cn.reader {
				got = append(got, m)
			}
		})
	}
	err := cn.runReader()
	if buf < len(msgs) {
		close(cn.reader)
		zz.WaitAll()
	} else {
		for len(cn.reader) > 0 {
			got = append(got, <-cn.reader)
		}
	}
	zz.Reach("eof")
	zz.Assert(err != nil, "C04: end of stream does not end the reader with an error")
	zz.Assert(len(got) == len(msgs), "C04: the number of delivered messages differs from the number sent")
	for i := range msgs {
		zz.Assert(len(got[i]) == len(msgs[i]), "C04: a delivered message has a different length than the one sent (merged, split or truncated)")
		zz.Assert(zz.EqBytes(got[i], msgs[i]), "C04: a delivered message is not byte-identical to the one sent")
	}
}

// H_C04_writer: Conn.Write puts each message on the wire whole, once, in call order, with a
// write deadline set before it; a cancelled connection refuses. params: [k, failAt]
func H_C04_writer() {
	k := zz.Param(0)
	sc := &scriptConn{failAt: zz.Param(1), failMode: zz.Param(2)}
	cn := NewConn(context.Background(), sc, 1, 5*time.Second)
	var sent [][]byte
	for i := 0; i < k; i++ {
		m := tinyMsg(zz.Bytes(1)[0], zz.Bytes(1+i%3))
		sent = append(sent, m)
		err := cn.Write(m)
		if sc.failAt != 0 && i+1 >= sc.failAt {
			zz.Assert(err != nil, "C04: a failed, timed-out or cancelled write is reported as success")
		} else {
			zz.Assert(err == nil, "C04: Write fails on a healthy connection")
		}
	}
	zz.Reach("written")
	n := k
	if sc.failAt != 0 && sc.failAt <= k {
		n = sc.failAt
	}
	if sc.failMode == 0 {
		zz.Assert(len(sc.writes) == n, "C04: number of socket writes differs from the number of messages handed over")
		for i := 0; i < n; i++ {
			zz.Assert(zz.EqBytes(sc.writes[i], sent[i]), "C04: a message is not written whole, once and in hand-off order")
		}
	}
	// whatever the socket accepted is a prefix of the hand-off sequence: nothing repeated, nothing interleaved
	var all []byte
	for _, m := range sent {
		all = append(all, m...)
	}
	zz.Assert(len(sc.wire) <= len(all), "C04: more bytes on the wire than were handed over (a message was repeated)")
	zz.Assert(zz.EqBytes(sc.wire, all[:len(sc.wire)]), "C04: the outbound byte stream is not the hand-off sequence (repeated or interleaved bytes)")
	zz.Assert(len(sc.deadline) >= 1 || k == 0, "C04: no write deadline set before a write")
}

// H_C04_initiator: the complete Initiator.Serve plumbing (reader goroutine, handler loop, writer
// loop) on a scripted connection: inbound messages reach the handler callbacks once, in order,
// byte-identical; messages handed to Send appear on the socket whole and in order.
// params: [scenario, cutMode, c1, c2, c3, bufSize, nsend]
func H_C04_initiator() {
	scn := zz.Param(0)
	msgs := messagesFor(scn)
	var stream []byte
	for _, m := range msgs {
		stream = append(stream, m...)
	}
	sc := &scriptConn{data: stream, gate: make(chan struct{})}
	switch zz.Param(1) {
	case 0:
		sc.cuts = []int{zz.Param(2), zz.Param(3), zz.Param(4)}
	case 1:
		sc.cuts = make([]int, len(stream))
		for i := range sc.cuts {
			sc.cuts[i] = 1
		}
	}
	h := NewInitiatorHandler(context.Background(), "35", zz.Param(5))
	var got [][]byte
	h.HandleIncoming(AllMsgTypes, func(d []byte) bool {
		got = append(got, d)
		return true
	})
	ini := NewInitiator(sc, h, zz.Param(5), time.Second)
	var sent [][]byte
	for i := 0; i < zz.Param(6); i++ {
		m := tinyMsg('D', zz.Bytes(1+i))
		sent = append(sent, m)
	}
	zz.Go(func() {
		for _, m := range sent {
			_ = h.SendRaw(m)
		}
	})
	served := false
	zz.Go(func() {
		_ = ini.Serve()
		served = true
	})
	zz.Yield() // everything runs until the reader waits for more bytes and the loops wait for work
	zz.Reach("quiescent")
	zz.Assert(!served, "C04: Serve returned although the connection is still open")
	zz.Assert(len(got) == len(msgs), "C04: the handler did not receive exactly the messages the peer sent")
	for i := range msgs {
		zz.Assert(zz.EqBytes(got[i], msgs[i]), "C04: the handler received a message that is not byte-identical / in order")
	}
	zz.Assert(len(sc.writes) == len(sent), "C04: the messages handed over for sending did not all reach the socket")
	for i := range sc.writes {
		zz.Assert(zz.EqBytes(sc.writes[i], sent[i]), "C04: outbound messages are not written whole and in hand-off order")
	}
	close(sc.gate) // the peer closes the connection
	zz.WaitAll()
	zz.Assert(served, "C04: Serve does not return after the peer closed the connection")
	zz.Assert(sc.closed, "C04: the socket is not closed when Serve returns")
}

// H_C04_acceptor: two connections served by one Acceptor at the same time (Acceptor.serve per
// connection): each connection's handler receives exactly its own peer's messages, outbound
// messages of each handler go to its own socket. params: [scenarioA, scenarioB, cutMode, bufSize]
func H_C04_acceptor() {
	type side struct {
		msgs  [][]byte
		sc    *scriptConn
		got   [][]byte
		sent  [][]byte
		ended bool
	}
	mk := func(scn int) *side {
		sd := &side{msgs: messagesFor(scn)}
		var stream []byte
		for _, m := range sd.msgs {
			stream = append(stream, m...)
		}
		sd.sc = &scriptConn{data: stream, gate: make(chan struct{})}
		if zz.Param(2) == 1 {
			sd.sc.cuts = make([]int, len(stream))
			for i := range sd.sc.cuts {
				sd.sc.cuts[i] = 1
			}
		} else if zz.Param(2) == 0 {
			sd.sc.cuts = []int{7, 2, 30}
		}
		return sd
	}
	a, b := mk(zz.Param(0)), mk(zz.Param(1))
	order := []*side{a, b}
	n := 0
	acc := NewAcceptor(nil, NewAcceptorHandlerFactory("35", zz.Param(3)), time.Second, func(h AcceptorHandler) {
		sd := order[n]
		n++
		h.HandleIncoming(AllMsgTypes, func(d []byte) bool {
			sd.got = append(sd.got, d)
			if zz.Param(4) == 1 {
				// the application answers every inbound message from inside its callback
				r := tinyMsg('R', []byte{byte('a' + len(sd.got)%26), 'x'})
				sd.sent = append(sd.sent, r)
				_ = h.SendRaw(r)
			}
			return true
		})
		if zz.Param(4) == 1 {
			return
		}
		m := tinyMsg('D', zz.Bytes(2))
		sd.sent = append(sd.sent, m)
		zz.Go(func() { _ = h.SendRaw(m) })
	})
	if zz.Param(4) == 1 {
		zz.PreemptionBound(zz.Param(5))
		zz.CoarseSchedules(true)
		zz.PickRotation(zz.Param(6))
		zz.ExploreSchedules(true)
	}
	acc.size = zz.Param(3)
	zz.Go(func() { acc.serve(acc.ctx, a.sc); a.ended = true })
	if zz.Param(4) == 1 {
		// one connection only: with schedules explored the order in which two connections reach
		// the new-client callback is not fixed, and the callback cannot tell them apart
		zz.Yield()
		zz.ExploreSchedules(false)
		zz.Reach("quiescent")
		zz.Assert(len(a.got) == len(a.msgs), "C04: the handler did not receive every message although it answers each one (hand-off between reader, handler and writer stuck?)")
		for i := range a.got {
			zz.Assert(zz.EqBytes(a.got[i], a.msgs[i]), "C04: a handler received a message that is not byte-identical / in order")
		}
		zz.Assert(len(a.sc.writes) == len(a.sent), "C04: the answers did not all reach the socket")
		for i := range a.sc.writes {
			zz.Assert(zz.EqBytes(a.sc.writes[i], a.sent[i]), "C04: answers written out of order or not whole")
		}
		close(a.sc.gate)
		zz.WaitAll()
		zz.Assert(zz.And(a.ended, a.sc.closed), "C04: connection not torn down")
		return
	}
	zz.Go(func() { acc.serve(acc.ctx, b.sc); b.ended = true })
	zz.Yield()
	zz.Reach("quiescent")
	for _, sd := range order {
		zz.Assert(len(sd.got) == len(sd.msgs), "C04: a connection's handler did not receive exactly the messages of its own peer")
		for i := range sd.msgs {
			zz.Assert(zz.EqBytes(sd.got[i], sd.msgs[i]), "C04: a handler received a message that is not byte-identical / in order / from its own connection")
		}
		zz.Assert(len(sd.sc.writes) == len(sd.sent), "C04: outbound messages did not reach their own connection's socket exactly once")
		for i := range sd.sc.writes {
			zz.Assert(zz.EqBytes(sd.sc.writes[i], sd.sent[i]), "C04: outbound message written to the wrong connection or not whole")
		}
	}
	close(a.sc.gate)
	zz.Yield()
	zz.Assert(a.ended, "C04: serving a connection does not end when its peer closes")
	zz.Assert(!b.ended, "C04: closing one connection ended another one")
	zz.Assert(zz.And(a.sc.closed, !b.sc.closed), "C04: wrong socket closed")
	close(b.sc.gate)
	zz.WaitAll()
	zz.Assert(zz.And(b.ended, b.sc.closed), "C04: second connection not torn down")
}
