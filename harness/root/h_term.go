package simplefixgo

import (
	"context"
	"errors"
	"net"
	"strconv"
	"time"

	"github.com/b2broker/simplefix-go/session/messages"
	zz "github.com/b2broker/simplefix-go/zzverif"
)

// C13 (bounded): every way a connection can end leaves nothing blocked.
//
// causes
const (
	tPeerClose   = iota // the peer closes: Read returns io.EOF
	tReadError          // Read fails with another error (reset)
	tWriteError         // the next Write fails
	tLocalClose         // Initiator.Close() / Acceptor.Close()
	tHandlerStop        // handler.Stop()
	tWriteTimeout       // the peer stops reading: every Write from now on hits its deadline
	nTermCauses
)

// points in the life of the connection at which the cause is injected
const (
	pIdle       = iota // nothing exchanged yet
	pAfterIn           // after inbound messages have been delivered
	pPartialIn         // inside an inbound message (a partial message has been read)
	pOutPending        // with an outbound message just handed over
	pBadFrame          // after an inbound frame without MsgType (the handler loop has ended with an error)
	nTermPoints
)

type termFx struct {
	sc           *scriptConn
	got          int
	disconnected int
	stopped      int
}

func termStream(point int) []byte {
	switch point {
	case pAfterIn, pOutPending:
		return append(tinyMsg('D', []byte("ab")), tinyMsg('0', []byte("c"))...)
	case pPartialIn:
		m := tinyMsg('D', []byte("ab"))
		return append(append([]byte{}, m...), m[:9]...)
	case pBadFrame:
		return append(tinyMsg('D', []byte("ab")), []byte("8=F\x019=5\x0134=2\x0110=000\x01")...)
	}
	return nil
}

// H_C13_initiator: params [cause, point, bufSize, preemptionBound]
func H_C13_initiator() {
	cause, point := zz.Param(0), zz.Param(1)
	zz.Class("cause=" + strconv.Itoa(cause) + "/point=" + strconv.Itoa(point) + "/buf=" + strconv.Itoa(zz.Param(2)))
	t := &termFx{sc: &scriptConn{data: termStream(point), gate: make(chan struct{})}}
	if cause == tReadError {
		t.sc.endErr = errors.New("connection reset by peer")
	}
	h := NewInitiatorHandler(context.Background(), "35", zz.Param(2))
	h.HandleIncoming(AllMsgTypes, func([]byte) bool { t.got++; return true })
	h.OnDisconnect(func() bool { t.disconnected++; return true })
	h.OnStopped(func() bool { t.stopped++; return true })
	ini := NewInitiator(t.sc, h, zz.Param(2), time.Second)
	served := false
	zz.Go(func() {
		_ = ini.Serve()
		served = true
	})
	zz.Yield() // start-up and inbound traffic settle
	if point != pBadFrame { // a frame without MsgType ends the handler loop, and with it the connection, by itself
		zz.Assert(!served, "C13: Serve returned although nothing ended the connection")
	}
	if point == pAfterIn || point == pOutPending {
		zz.Assert(t.got == 2, "fixture: inbound messages not delivered")
	}
	zz.PreemptionBound(zz.Param(3))
	zz.CoarseSchedules(true)
	zz.PickRotation(zz.Param(4))
	zz.ExploreSchedules(zz.Param(3) > 0)
	if point == pOutPending || cause == tWriteError || cause == tWriteTimeout {
		if cause == tWriteError || cause == tWriteTimeout {
			t.sc.failAt = len(t.sc.writes) + 1
			if cause == tWriteTimeout {
				t.sc.failMode = 2
			}
		}
		m := tinyMsg('D', []byte("out"))
		zz.Go(func() { _ = h.SendRaw(m) })
	}
	switch cause {
	case tPeerClose, tReadError:
		t.sc.release()
	case tLocalClose:
		ini.Close()
	case tHandlerStop:
		h.Stop()
	}
	zz.WaitAll() // every goroutine must finish: a goroutine blocked forever is reported as a deadlock
	zz.ExploreSchedules(false)
	zz.Reach("ended")
	zz.Assert(served, "C13: Serve does not return")
	zz.Assert(t.sc.closed, "C13: the socket is not closed")
	// later sends return instead of blocking (a send that blocks forever is a deadlock outcome)
	_ = h.SendRaw(tinyMsg('D', []byte("late")))
	_ = ini.Send(messages.NewMockMessage("D", tinyMsg('D', []byte("late2")), nil))
	switch cause {
	case tPeerClose, tReadError, tWriteError, tWriteTimeout:
		if point != pBadFrame { // there the handler loop itself ended first; its error is Serve's return value
			zz.Assert(t.disconnected+t.stopped >= 1, "C13: the local side is not notified (disconnect/stopped) when the connection ends")
		}
	}
	zz.Assert(zz.Goroutines() == 0, "C13: a goroutine started by the library remains")
}


// H_C13_acceptor: one connection served by an Acceptor. params [cause, point, bufSize, preemptionBound]
// (tLocalClose = Acceptor.Close())
func H_C13_acceptor() {
	cause, point := zz.Param(0), zz.Param(1)
	zz.Class("acceptor/cause=" + strconv.Itoa(cause) + "/point=" + strconv.Itoa(point) + "/buf=" + strconv.Itoa(zz.Param(2)))
	t := &termFx{sc: &scriptConn{data: termStream(point), gate: make(chan struct{})}}
	if cause == tReadError {
		t.sc.endErr = errors.New("connection reset by peer")
	}
	var h AcceptorHandler
	acc := NewAcceptor(nil, NewAcceptorHandlerFactory("35", zz.Param(2)), time.Second, func(hh AcceptorHandler) {
		h = hh
		hh.HandleIncoming(AllMsgTypes, func([]byte) bool { t.got++; return true })
		hh.OnDisconnect(func() bool { t.disconnected++; return true })
		hh.OnStopped(func() bool { t.stopped++; return true })
	})
	acc.size = zz.Param(2)
	served := false
	zz.Go(func() {
		acc.serve(acc.ctx, t.sc)
		served = true
	})
	zz.Yield()
	if point != pBadFrame {
		zz.Assert(!served, "C13: serve returned although nothing ended the connection")
	}
	if point == pAfterIn || point == pOutPending {
		zz.Assert(t.got == 2, "fixture: inbound messages not delivered")
	}
	zz.PreemptionBound(zz.Param(3))
	zz.CoarseSchedules(true)
	zz.PickRotation(zz.Param(4))
	zz.ExploreSchedules(zz.Param(3) > 0)
	if point == pOutPending || cause == tWriteError || cause == tWriteTimeout {
		if cause == tWriteError || cause == tWriteTimeout {
			t.sc.failAt = len(t.sc.writes) + 1
			if cause == tWriteTimeout {
				t.sc.failMode = 2
			}
		}
		m := tinyMsg('D', []byte("out"))
		zz.Go(func() { _ = h.SendRaw(m) })
	}
	switch cause {
	case tPeerClose, tReadError:
		t.sc.release()
	case tLocalClose:
		acc.Close()
	case tHandlerStop:
		h.Stop()
	}
	zz.WaitAll()
	zz.ExploreSchedules(false)
	zz.Reach("ended")
	zz.Assert(served, "C13: serving the connection does not return")
	zz.Assert(t.sc.closed, "C13: the socket is not closed")
	_ = h.SendRaw(tinyMsg('D', []byte("late")))
	_ = h.Send(messages.NewMockMessage("D", tinyMsg('D', []byte("late2")), nil))
	switch cause {
	case tPeerClose, tReadError, tWriteError, tWriteTimeout:
		if point != pBadFrame { // there the handler loop itself ended first; its error is Serve's return value
			zz.Assert(t.disconnected+t.stopped >= 1, "C13: the local side is not notified (disconnect/stopped) when the connection ends")
		}
	}
	zz.Assert(zz.Goroutines() == 0, "C13: a goroutine started by the library remains")
}

// memListener is an in-memory net.Listener: Accept hands out the queued connections, then blocks
// until Close, after which it fails like a closed listener.
type memListener struct {
	conns  chan net.Conn
	done   chan struct{}
	closed bool
}

func (l *memListener) Accept() (net.Conn, error) {
	select {
	case c := <-l.conns:
		return c, nil
	case <-l.done:
		return nil, errors.New("accept: use of closed network connection")
	}
}
func (l *memListener) Close() error {
	if !l.closed {
		l.closed = true
		close(l.done)
	}
	return nil
}
func (l *memListener) Addr() net.Addr { return nil }

// H_C13_listen: Acceptor.ListenAndServe with one idle accepted connection; the acceptor is closed
// locally (cause 0) or the listener fails (cause 1). params [cause, bufSize, preemptionBound, rotation]
func H_C13_listen() {
	cause := zz.Param(0)
	zz.Class("listen/cause=" + strconv.Itoa(cause))
	sc := &scriptConn{gate: make(chan struct{})}
	l := &memListener{conns: make(chan net.Conn, 1), done: make(chan struct{})}
	l.conns <- sc
	stopped := 0
	acc := NewAcceptor(l, NewAcceptorHandlerFactory("35", zz.Param(1)), time.Second, func(h AcceptorHandler) {
		h.OnStopped(func() bool { stopped++; return true })
	})
	acc.size = zz.Param(1)
	var ret error
	returned := false
	zz.Go(func() {
		ret = acc.ListenAndServe()
		returned = true
	})
	zz.Yield()
	zz.Assert(!returned, "C13: ListenAndServe returned although nothing ended it")
	zz.CoarseSchedules(true)
	zz.PickRotation(zz.Param(3))
	zz.PreemptionBound(zz.Param(2))
	zz.ExploreSchedules(zz.Param(2) > 0)
	if cause == 0 {
		acc.Close()
	} else {
		_ = l.Close()
	}
	zz.WaitAll()
	zz.ExploreSchedules(false)
	zz.Yield()
	zz.Reach("ended")
	zz.Assert(returned, "C13: ListenAndServe does not return")
	if cause == 0 {
		zz.Assert(ret == nil, "C13: ListenAndServe reports an error for a local Close")
	} else {
		zz.Assert(ret != nil, "C13: ListenAndServe hides the listener failure")
	}
	zz.Assert(l.closed, "C13: the listener is not closed")
	zz.Assert(sc.closed, "C13: the accepted socket is not closed when the acceptor ends")
	zz.Assert(zz.Goroutines() == 0, "C13: a goroutine started by the library remains after the acceptor ended")
}
