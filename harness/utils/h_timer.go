package utils

import (
	"time"

	zz "github.com/b2broker/simplefix-go/zzverif"
)

// H_C08_timer: Timer.TakeTimeout over a symbolic non-decreasing clock, harness-driven ticks and
// optional refreshes between ticks (another goroutine sending a message).
// params: [ticks, mode]  mode 0: fresh timer; 1: timer that has been used before (stale lastUpdate)
//
// Clock readings (all symbolic, non-decreasing): every Refresh and every time.Until draws one.
// Asserted at every tick: TakeTimeout has returned  <=>  reading >= (instant of the latest Refresh) + timeout,
// where the latest Refresh is at the earliest the entry into TakeTimeout.
func H_C08_timer() {
	zz.ClockSymbolic(true)
	T := time.Duration(zz.IntIn(10_000, 1<<40)) // >= 10us (NewTimer's minimum), <= ~18 min
	tm, err := NewTimer(T)
	zz.Assert(err == nil, "C08: NewTimer refuses a valid timeout")
	zz.Assert(tm.timeout == T, "C08: timer timeout differs from the requested one")
	zz.Assert(tm.checkingTimeout == T/10, "C08: polling granularity is not timeout/10")
	if zz.Param(1) == 1 {
		tm.Refresh() // an earlier use: lastUpdate is some instant before the entry
	}
	zz.TickBudget(0)
	returned := false
	entry := zz.TimeOf(time.Now()) // the harness's own clock reading just before the call
	zz.Go(func() {
		tm.TakeTimeout()
		returned = true
	})
	zz.Yield() // runs TakeTimeout up to its first wait
	zz.Assert(!returned, "C08: TakeTimeout returned before any wake-up")
	zz.Assert(zz.TimeOf(tm.lastUpdate) >= entry, "C08: TakeTimeout does not start its period at the moment it is entered (stale last-refresh instant)")
	checkedWaits := 0
	// every timed wait the loop arms must end no later than timeout + timeout/10 after the latest
	// refresh (a ticker re-arms itself every period)
	checkWaits := func() {
		n := zz.ArmedWaits()
		for ; checkedWaits < n; checkedWaits++ {
			d := zz.ArmDuration(checkedWaits)
			zz.Assert(d > 0, "C08: a wait is armed with a non-positive duration")
			if zz.ArmIsTicker(checkedWaits) {
				zz.Assert(d*10 <= int64(T), "C08: the poll ticker period exceeds timeout/10")
			} else {
				lim := zz.TimeOf(tm.lastUpdate) + int64(T) + int64(T)/10
				zz.Assert(zz.ArmInstant(checkedWaits)+d <= lim, "C08: a wait is armed to end later than timeout + timeout/10 after the last refresh")
			}
		}
	}
	checkWaits()
	zz.Assert(zz.ArmedWaits() >= 1, "C08: TakeTimeout waits without arming any timer")
	for k := 0; k < zz.Param(0); k++ {
		if zz.Bool() {
			tm.Refresh() // an outbound (or inbound) message refreshes the timer between two wake-ups
		}
		zz.Tick()
		zz.Yield()
		reading := zz.LastNow() // a clock value read at or after the poll's comparison
		last := zz.TimeOf(tm.lastUpdate)
		due := reading >= last+int64(T)
		zz.Reach("tick")
		zz.Assert(zz.Implies(returned, due), "C08: TakeTimeout returned before timeout elapsed since the last refresh")
		zz.Assert(zz.Implies(returned, reading >= entry+int64(T)), "C08: TakeTimeout returned sooner than timeout after it was entered")
		if returned {
			return
		}
		zz.Assert(!due, "C08: TakeTimeout keeps waiting although timeout has elapsed since the last refresh")
		checkWaits()
	}
}

// H_C08_newtimer: NewTimer parameter handling. params: [case]
func H_C08_newtimer() {
	switch zz.Param(0) {
	case 0:
		_, err := NewTimer(0)
		zz.Assert(err != nil, "C08: zero timeout accepted")
	case 1:
		d := time.Duration(zz.IntIn(1, 9_999))
		_, err := NewTimer(d)
		zz.Assert(err != nil, "C08: timeout below the minimum polling granularity accepted")
	case 2:
		d := time.Duration(zz.IntIn(10_000, 1<<42))
		tm, err := NewTimer(d)
		zz.Assert(err == nil, "C08: valid timeout refused")
		zz.Assert(tm.checkingTimeout*10 <= d, "C08: polling granularity exceeds timeout/10")
		zz.Assert(tm.checkingTimeout >= time.Microsecond, "C08: polling granularity below 1us")
	}
	zz.Reach("done")
}
