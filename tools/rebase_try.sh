#!/bin/bash
# usage: rebase_try.sh <seeded name>  -- tries git apply --3way of the seeded patch on /repo HEAD in a scratch worktree;
# on success (builds) replaces patch.diff (keeping patch.orig.diff), else leaves the worktree at /tmp/rb.<name> for hand editing
export GOFLAGS=-mod=mod GOPROXY=off GOSUMDB=off GOTOOLCHAIN=local
n=$1; d=/verif/seeded/$n; wt=/tmp/rb.$n
git -C /repo worktree remove --force $wt >/dev/null 2>&1
git -C /repo worktree add --detach $wt HEAD >/dev/null 2>&1
src=$d/patch.diff; [ -f $d/patch.orig.diff ] && src=$d/patch.orig.diff
if (cd $wt && git apply --3way $src >/dev/null 2>&1 && ! grep -rq "^<<<<<<<" --include=*.go . && go build ./... >/dev/null 2>&1); then
  [ -f $d/patch.orig.diff ] || cp $d/patch.diff $d/patch.orig.diff
  (cd $wt && git diff HEAD) > $d/patch.diff
  git -C /repo worktree remove --force $wt
  echo "$n: rebased automatically"
else
  (cd $wt && git checkout -- . 2>/dev/null; git reset -q --hard HEAD)
  echo "$n: needs hand rebase in $wt (source: $src)"
fi
