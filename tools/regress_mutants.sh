#!/bin/bash
# usage: regress_mutants.sh [name-glob]
# For every seeded change in /verif/seeded: a scratch worktree of /repo HEAD (under /tmp, removed
# afterwards) gets the patch, and the quick check(s) expected to catch it are run against that
# worktree (GOSYM_REPO) with evidence/replays written to a scratch directory (GOSYM_OUT), so neither
# /repo nor /verif/evidence is touched. tools/seeded_checks.txt: "<name> <id> [<id>..]"; default:
# the property the change was written against. One line per (change, check) is appended to
# /verif/seeded/regression.tsv: name <tab> check <tab> exit code <tab> first reported case
cd /verif
pat=${1:-*}
out=/verif/seeded/regression.tsv
for d in seeded/$pat/; do
  name=$(basename $d)
  [ -f $d/patch.diff ] || continue
  ids=$(awk -v n=$name '$1==n {for(i=2;i<=NF;i++) printf "%s ", $i}' tools/seeded_checks.txt)
  [ -z "$ids" ] && ids=$(echo $name | sed -E 's/^(C[0-9]+)[a-z]?_.*/\1/')
  wt=$(mktemp -d /tmp/rg.XXXXXX); rmdir $wt
  git -C /repo worktree add --detach $wt HEAD >/dev/null 2>&1 || { echo "$name: worktree failed"; continue; }
  if ! git -C $wt apply --check /verif/$d/patch.diff 2>/dev/null; then
    printf "%s\t-\tno-apply\t\n" $name >> $out; echo "$name: patch does not apply"
  else
    git -C $wt apply /verif/$d/patch.diff
    for id in $ids; do
      res=$(GOSYM_REPO=$wt GOSYM_OUT=$wt.out bin/gosym check $id --tier quick 2>&1); rc=$?
      first=$(echo "$res" | grep -E "^  (H_|data race|extra|c12|fatal)" | head -1 | sed -E 's/vector=\[[^]]*\]//; s/\t/ /g' | cut -c1-200)
      printf "%s\t%s\t%s\t%s\n" $name $id $rc "$first" >> $out
      echo "$name $id rc=$rc"
    done
  fi
  git -C /repo worktree remove --force $wt >/dev/null 2>&1; rm -rf $wt $wt.out
done
