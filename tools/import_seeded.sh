#!/bin/bash
# usage: import_seeded.sh <tag e.g. C07c>  -- copies /tmp/mut/<tag>/out/m{1,2} into /verif/seeded/<tag>_m{1,2}
tag=$1
for m in m1 m2; do
  src=/tmp/mut/$tag/out/$m; dst=/verif/seeded/${tag}_$m
  [ -d $src ] || continue
  mkdir -p $dst
  cp $src/patch.diff $src/NOTES.md $dst/ 2>/dev/null
  cp $src/demo_test.go $dst/demo_test.go.txt
  mkdir -p /tmp/mutout/$tag/$m; cp $src/* /tmp/mutout/$tag/$m/
done
ls /verif/seeded | grep "^$tag"
