#!/usr/bin/env python3
"""Assemble /verif/seeded/<ID>_m<k>/ from the sub-agents' outputs (/tmp/mutout/<ID>/m<k>),
the confirmation log (tools/confirm_mutant.sh lines) and the detection table below.
usage: make_seeded.py <confirm.log>"""
import json, os, re, shutil, sys

# which check(s) catch which seeded change, as observed with tools/try_mutant.sh (quick tier)
DETECT = {
 "C01_m1": ("C01", "caught", "H_C01_frame/H_C01_tags: checksum text has two characters when sum<10"),
 "C01_m2": ("C01", "caught after strengthening", "H_C01_reuse was added for it (first ToBytes result overwritten by the second)"),
 "C02_m1": ("C02,C18", "caught", "H_C02_roundtrip on templates 12/19/20 (entries split on unanchored first tag)"),
 "C02_m2": ("C02", "caught", "H_C02_roundtrip with the 64-bit extreme values (lenSel 9): MaxUint64 serialized as -1"),
 "C03_m1": ("C03", "caught", "H_C03_damage in CheckSum.value (substitute '+', delete/insert leading 0) and H_C03_accept"),
 "C03_m2": ("C03", "caught", "H_C03_damage insertion of 0x00 into BeginString, non-strict jobs"),
 "C04_m1": ("C04", "caught", "H_C04_reader one-byte reads / cuts inside <SOH>10="),
 "C04_m2": ("C04", "caught after strengthening", "scenario 2 (5000-byte message followed by small ones) was added for it"),
 "C05_m1": ("C05", "caught", "H_C05_sched: application Send vs inbound reply / timer / reject with one preemption"),
 "C05_m2": ("C05", "caught", "H_C05_step with symbolic ResetSeqNumFlag: counter not 1 after the logon exchange"),
 "C06_m1": ("C06", "caught", "H_C06_acceptor two-step (refused Logon first, then out-of-range interval accepted)"),
 "C06_m2": ("C06", "caught", "H_C06_acceptor two-step with approval by username (stale credentials)"),
 "C07_m1": ("C07", "?", ""),
 "C07_m2": ("C07", "?", ""),
 "C08_m1": ("C08", "caught", "H_C08_heartbeat from the waiting-for-TestRequest-answer state"),
 "C08_m2": ("C08", "caught after strengthening", "time.NewTimer/Reset modelled as armed waits; H_C08_timer asserts every wait ends by lastRefresh+T+T/10"),
 "C09_m1": ("C08,C09", "caught after strengthening", "H_C08_timer now takes its own clock reading at entry and asserts lastUpdate >= entry"),
 "C09_m2": ("C09", "caught", "H_C09_probe scenario 1 with a non-Heartbeat message in the second period; H_C08_refresh"),
 "C10_m1": ("C10", "?", ""),
 "C10_m2": ("C10", "?", ""),
 "C11_m1": ("C11", "caught", "H_C11_vbt with message == tag"),
 "C11_m2": ("C11", "caught", "unwinding bound in findField + native replay times out (hang)"),
 "C14_m1": ("C14", "caught", "H_C14_echo from the waiting-for-TestRequest-answer pre-state"),
 "C14_m2": ("C14,C02", "patch no longer applies", "rewrites scanKeyValue, which the parser fixes changed; not rebased"),
 "C15_m1": ("C15", "?", ""),
 "C15_m2": ("C15", "?", ""),
 "C16_m1": ("C16", "?", ""),
 "C16_m2": ("C16", "?", ""),
 "C17_m1": ("C17", "caught after strengthening", "strconv.AppendFloat modelled; counterexample replayed natively with the boundary-float table (1e-05)"),
 "C17_m2": ("C17", "caught", "H_C17_fields templates 3/6/12 with an unpopulated nested component"),
 "C18_m1": ("C04", "caught", "H_C04_reader scenario 4 (110=100 field)"),
 "C18_m2": ("C18", "caught", "H_C02_roundtrip on adversarial templates 19/20"),
 "C19_m1": ("C19", "caught after strengthening", "H_C19_send with a handler that modifies the message"),
 "C19_m2": ("C19", "caught", "H_C19_send: refusing handler last in its pool"),
 "C20_m1": ("C20", "?", ""),
 "C20_m2": ("C20", "?", ""),
}
if os.path.exists('/verif/seeded/detect_override.json'):
    DETECT.update({k: tuple(v) for k, v in json.load(open('/verif/seeded/detect_override.json')).items()})

confirm = {}
if len(sys.argv) > 1 and os.path.exists(sys.argv[1]):
    for l in open(sys.argv[1]):
        m = re.match(r'CONFIRM (\S+) (.*)', l.strip())
        if m:
            confirm[m.group(1)] = m.group(2)

rows = []
for pid in sorted(os.listdir('/tmp/mutout')):
    for mk in ('m1', 'm2'):
        src = f'/tmp/mutout/{pid}/{mk}'
        if not os.path.isdir(src):
            continue
        name = f'{pid}_{mk}'
        dst = f'/verif/seeded/{name}'
        os.makedirs(dst, exist_ok=True)
        for f in ('patch.diff', 'demo_test.go', 'NOTES.md'):
            if os.path.exists(f'{src}/{f}'):
                shutil.copy(f'{src}/{f}', f'{dst}/{f}')
        # the demonstration is kept under a name the go tool ignores inside /verif
        if os.path.exists(f'{dst}/demo_test.go'):
            os.replace(f'{dst}/demo_test.go', f'{dst}/demo_test.go.txt')
        notes = open(f'{dst}/NOTES.md').read() if os.path.exists(f'{dst}/NOTES.md') else ''
        det = DETECT.get(name, (pid, '?', ''))
        meta = {
            "property": pid,
            "name": name,
            "author": "independent sub-agent given only the property text and a scratch worktree",
            "breaks": pid,
            "needs_to_manifest": next((l.strip('-* ').strip() for l in notes.splitlines() if re.search(r'(?i)(condition|needs|trigger|manifest)', l)), ''),
            "confirmed_by_me": confirm.get(name, "not run"),
            "confirmation_cmd": f"tools/confirm_mutant.sh /verif/seeded/{name} (scratch worktree: demo passes clean, patch applies and builds, pinned suite passes, demo fails with patch)",
            "checked_with": f"tools/try_mutant.sh /verif/seeded/{name}/patch.diff {det[0].replace(',', ' ')}",
            "detected_by": det[0], "detection": det[1], "how": det[2],
        }
        json.dump(meta, open(f'{dst}/meta.json', 'w'), indent=1)
        rows.append((name, det[0], det[1], det[2], confirm.get(name, 'not run')))

with open('/verif/seeded/INDEX.md', 'w') as f:
    f.write("# Seeded changes\n\nEach directory holds `patch.diff` (against /repo HEAD at seeding time), `demo_test.go.txt` (the author's demonstration; copy to the package named in its first line as `*_test.go`), `NOTES.md` (author's notes) and `meta.json`.\n\n")
    f.write("| change | check(s) | result | how | my confirmation (scratch worktree) |\n|---|---|---|---|---|\n")
    for r in rows:
        f.write("| %s | %s | %s | %s | %s |\n" % r)
    n = len(rows); c = sum(1 for r in rows if r[2].startswith('caught'))
    f.write(f"\n{c} of {n} seeded changes are caught by the registered quick checks.\n")
print(len(rows), "seeded entries")
