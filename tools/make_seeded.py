#!/usr/bin/env python3
"""Write meta.json for every /verif/seeded/<name>/ and /verif/seeded/INDEX.md from
 - the confirmation logs (tools/confirm_mutant.sh lines; files given as arguments),
 - /verif/seeded/regression.tsv (tools/regress_mutants.sh: last line per (change, check) wins),
 - tools/seeded_notes.json (name -> [how it is caught, "strengthened"|""]).
usage: make_seeded.py <confirm.log>..."""
import json, os, re, sys

notes = json.load(open('/verif/tools/seeded_notes.json'))
confirm = {}
for a in sys.argv[1:]:
    if os.path.exists(a):
        for l in open(a):
            m = re.match(r'CONFIRM (\S+) (.*)', l.strip())
            if m:
                confirm[m.group(1)] = m.group(2)
if os.path.exists('/verif/seeded/confirm.log'):
    for l in open('/verif/seeded/confirm.log'):
        m = re.match(r'CONFIRM (\S+) (.*)', l.strip())
        if m and m.group(1) not in confirm:
            confirm[m.group(1)] = m.group(2)
with open('/verif/seeded/confirm.log', 'w') as f:
    for k in sorted(confirm):
        f.write(f'CONFIRM {k} {confirm[k]}\n')

reg = {}
if os.path.exists('/verif/seeded/regression.tsv'):
    for l in open('/verif/seeded/regression.tsv'):
        p = l.rstrip('\n').split('\t')
        if len(p) >= 3:
            reg.setdefault(p[0], {})[p[1]] = (p[2], p[3] if len(p) > 3 else '')

rows = []
for name in sorted(os.listdir('/verif/seeded')):
    d = f'/verif/seeded/{name}'
    if not os.path.isdir(d) or not os.path.exists(f'{d}/patch.diff'):
        continue
    pid = re.match(r'(C\d+)', name).group(1)
    txt = open(f'{d}/NOTES.md').read() if os.path.exists(f'{d}/NOTES.md') else ''
    how, strengthened = (notes.get(name) or ['', ''])[:2]
    r = reg.get(name, {})
    caught_by = [c for c, (rc, _) in r.items() if rc == '1']
    if caught_by:
        status = 'caught' + (' after strengthening' if strengthened else '')
    elif any(rc == 'no-apply' for rc, _ in r.values()):
        status = 'patch no longer applies to HEAD'
    elif r:
        status = 'NOT caught (' + ', '.join(f'{c}: exit {rc}' for c, (rc, _) in r.items()) + ')'
    else:
        status = 'not run'
    if name in notes and len(notes[name]) > 2 and notes[name][2]:
        status = notes[name][2]
    first = next((f for c, (rc, f) in r.items() if rc == '1' and f), '')
    meta = {
        "property": pid, "name": name,
        "author": "independent sub-agent given only the property text and a scratch worktree of /repo",
        "needs_to_manifest": next((l.strip('-* ').strip() for l in txt.splitlines() if re.search(r'(?i)(condition|needs|trigger|manifest)', l)), ''),
        "confirmed_by_me": confirm.get(name, "not run"),
        "confirmation_cmd": f"tools/confirm_mutant.sh /verif/seeded/{name} (scratch worktree of /repo HEAD: demonstration passes clean, patch applies and builds, pinned suite passes, demonstration fails with the patch)",
        "checked_with": "tools/regress_mutants.sh " + name + " (git -C /repo apply patch.diff; bin/gosym check <id> --tier quick; git -C /repo checkout -- .)",
        "checks_run": {c: {"exit": rc, "first_case": f} for c, (rc, f) in r.items()},
        "detected_by": caught_by, "detection": status, "how": how,
    }
    json.dump(meta, open(f'{d}/meta.json', 'w'), indent=1)
    rows.append((name, ','.join(caught_by) or '-', status, how or first, confirm.get(name, 'not run')))

with open('/verif/seeded/INDEX.md', 'w') as f:
    f.write("# Seeded changes\n\nEach directory holds `patch.diff` (against /repo HEAD; rebased by hand where a later fix moved the code, the original kept as `patch.orig.diff`), `demo_test.go.txt` (the author's demonstration; copy to the package named in its first line as `*_test.go`), `NOTES.md` (author's notes) and `meta.json`. Names: `<property>_m<k>` first round, `<property>b_…` second, `<property>c_…` third.\n\n")
    f.write("| change | caught by | result | how / first reported case | my confirmation (scratch worktree) |\n|---|---|---|---|---|\n")
    for r in rows:
        f.write("| %s | %s | %s | %s | %s |\n" % tuple(str(x).replace('|', '\\|') for x in r))
    n = len(rows); c = sum(1 for r in rows if r[2].startswith('caught'))
    f.write(f"\n{c} of {n} seeded changes are caught by the registered quick checks.\n")
print(len(rows), "seeded entries")
