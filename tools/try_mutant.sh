#!/bin/bash
# usage: try_mutant.sh <patch.diff> <check id> [<check id> ...]  -- applies the patch to /repo, runs the checks, reverts.
patch=$1; shift
cd /verif
if ! git -C /repo diff --quiet; then echo "/repo is dirty"; exit 2; fi
if ! git -C /repo apply --check "$patch" 2>/dev/null; then echo "PATCH DOES NOT APPLY: $patch"; exit 3; fi
git -C /repo apply "$patch"
trap 'git -C /repo checkout -- . ; git -C /repo clean -fdq' EXIT
for id in "$@"; do
  out=$(bin/gosym check $id --tier ${TIER:-quick} 2>&1); rc=$?
  echo "== $id rc=$rc"; echo "$out" | grep -E "^VIOLATION|^KNOWN|INCONCLUSIVE|^$id " | head -5
  echo "$out" | grep -E "^  H_" | sed -E 's/vector=\[[^]]*\]//' | sort | uniq -c | sort -rn | head -4
done
