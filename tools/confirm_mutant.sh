#!/bin/bash
# usage: confirm_mutant.sh <dir with patch.diff demo_test.go NOTES.md> [name]
# Confirms in a scratch worktree of /repo HEAD that the seeded change (a) applies and builds,
# (b) passes the pinned suite, (c) makes its demonstration fail, (d) which passes without it.
# Prints one line: CONFIRM <name> apply=.. build=.. suite=.. demo_clean=.. demo_mutant=..
export GOFLAGS=-mod=mod GOPROXY=off GOSUMDB=off GOTOOLCHAIN=local
src=$1; name=${2:-$(basename $(dirname $src))_$(basename $src)}
wt=$(mktemp -d /tmp/cw.XXXXXX); rmdir $wt
git -C /repo worktree add --detach $wt HEAD >/dev/null 2>&1 || { echo "CONFIRM $name worktree-failed"; exit 2; }
cleanup() { git -C /repo worktree remove --force $wt >/dev/null 2>&1; rm -rf $wt; }
trap cleanup EXIT
place=$(grep -m1 -oE 'place in: *[^ ]+' $src/demo_test.go | sed -E 's/place in: *//; s/[`"),.]+$//')
[ -z "$place" ] && place="."
place=${place%/}
[ "$place" = "repository" ] && place="."
mkdir -p $wt/$place
cp $src/demo_test.go $wt/$place/zz_demo_test.go
tname=$(grep -m1 -oE 'func (TestDemo[A-Za-z0-9_]+)' $src/demo_test.go | awk '{print $2}')
RACE=""; grep -qi "go test -race" $src/NOTES.md $src/demo_test.go 2>/dev/null && RACE="-race"
rundemo() { (cd $wt && timeout 600 go test $RACE -vet=off -count=1 -run "^${tname}\$" ./$place >/tmp/cw_demo.$$ 2>&1); echo $?; }
demo_clean=$(rundemo)
if git -C $wt apply --check $src/patch.diff 2>/dev/null; then apply=ok; git -C $wt apply $src/patch.diff; else apply=FAIL; fi
if (cd $wt && go build ./... >/dev/null 2>&1); then build=ok; else build=FAIL; fi
demo_mut=$(rundemo)
rm -f $wt/$place/zz_demo_test.go
# pinned suite (stable tests only)
(cd $wt && go test -json -vet=off -count=1 -timeout 20m ./... > /tmp/cw_suite.$$ 2>&1)
suite=$(python3 - /tmp/cw_suite.$$ <<'PY'
import json,sys
passed=set()
for l in open(sys.argv[1]):
    try: e=json.loads(l)
    except Exception: continue
    if e.get('Test') and e.get('Action')=='pass': passed.add(e['Package']+'::'+e['Test'])
base=json.load(open('/root/.vp/BASELINE.json'))
missing=[t for t in base['stable_pass'] if t not in passed]
print('ok' if not missing else 'FAIL:'+','.join(m.split('::')[1] for m in missing[:3]))
PY
)
rm -f /tmp/cw_suite.$$ /tmp/cw_demo.$$
dc=pass; [ "$demo_clean" != "0" ] && dc=FAIL
dm=fails; [ "$demo_mut" = "0" ] && dm=PASSES
echo "CONFIRM $name place=$place test=$tname apply=$apply build=$build suite=$suite demo_clean=$dc demo_mutant=$dm"
